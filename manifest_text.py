"""Per-property wording for MANIFEST.json."""
NOTE = ("Trusted: the Go toolchain, rapid, the harness's own renderer/oracles (DESIGN.md section 3). Exploration only: no counterexample among "
        "the generated cases, whose number, class histogram and samples are in the evidence file; it is not a proof of absence.")
CHECKS = {
    "C01": dict(ref="DESIGN.md section 4 C01", technique="property-based testing (rapid): generated expression trees x allowed lists against an independent Boolean evaluation oracle; shrunk counterexample becomes the replay file",
                text="Generated expression trees of every shape and term kind are rendered to text and Satisfies is compared with an independent Boolean evaluation of the tree over per-term verdicts; thousands (quick) to hundreds of thousands (thorough) of cases. Right level: the property quantifies over an infinite product space with a cheap exact oracle.", note=NOTE),
    "C03": dict(ref="DESIGN.md section 4 C03", technique="property-based testing and fuzzing: generated token sequences, exhaustive prefixes/deletions/insertions per generated expression, raw bytes, size families, native go fuzzing (thorough); oracle: recover() sees nothing",
                text="Every entry point is driven with token sequences, every prefix / single-token deletion / insertion of generated valid expressions, raw and invalid-UTF-8 bytes, nil/empty slices and very long / deeply nested inputs, each under recover(); thorough adds coverage-guided fuzzing. Right level: 'never panics' is a validity predicate over all byte strings.", note=NOTE),
}
NOT_YET = {}
