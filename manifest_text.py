"""Per-property wording for MANIFEST.json."""
NOTE = ("Trusted: the Go toolchain, rapid, the harness's own renderer/oracles (DESIGN.md section 3). Exploration only: no counterexample among "
        "the generated cases, whose number, class histogram and samples are in the evidence file; it is not a proof of absence.")
NOTE_EX = NOTE + " Sweeps marked exhaustive in the evidence visit every id of the shipped tables, so for the shipped data they are complete."


def c(ref, technique, text, note=NOTE):
    return dict(ref="DESIGN.md section 4 " + ref, technique=technique, text=text, note=note)


CHECKS = {
    "C01": c("C01", "property-based testing (rapid): generated expression trees x allowed lists against an independent Boolean evaluation oracle; shrunk counterexample becomes the replay file",
             "Generated expression trees of every shape and term kind are rendered to text and Satisfies is compared with an independent Boolean evaluation of the tree over per-term verdicts; thousands (quick) to hundreds of thousands (thorough) of cases. Right level: the property quantifies over an infinite product space with a cheap exact oracle."),
    "C02": c("C02", "property-based testing: exhaustive in-family pair sweep + rapid-generated term pairs against a reference matcher (differential), plus symmetry and reflexivity relations",
             "Every ordered pair of ids inside every table family in every form, every listed id against every listed id (thorough), and generated pairs incl. exceptions and references are checked against a reference implementation of the documented matching rules read from the shipped table.", NOTE_EX),
    "C03": c("C03", "property-based testing and fuzzing: generated token sequences, exhaustive prefixes/deletions/insertions per generated expression, raw bytes, size families, native go fuzzing (thorough); oracle: recover() sees nothing",
             "Every entry point is driven with token sequences, every prefix / single-token deletion / insertion of generated valid expressions, raw and invalid-UTF-8 bytes, nil/empty slices and very long / deeply nested inputs, each under recover(); thorough adds coverage-guided fuzzing. Right level: 'never panics' is a validity predicate over all byte strings."),
    "C04": c("C04", "property-based testing (rapid): generated strings and lists; oracle = agreement relations between ValidateLicenses, ExtractLicenses and Satisfies",
             "Generated lists mixing valid, invalid, compound and raw strings; the three entry points must agree on validity, report exactly the invalid elements in order, and return errors exactly for invalid input with false/nil results."),
    "C05": c("C05", "property-based testing: weighted random and near-valid token sequences plus exhaustive enumeration of all short sequences, against a reference recogniser of the documented grammar",
             "ValidateLicenses' verdict is compared with a reference recogniser over generated token sequences (random, single/double edits of valid expressions, and ALL sequences up to length 4/5 over one representative per token class). The finite X++ class of known finding F11 is enumerated separately.", NOTE_EX),
    "C06": c("C06", "property-based testing: homomorphism / fix-point / self-satisfaction relations over generated trees, and an exhaustive single-term sweep over every listed id x form x case",
             "ExtractLicenses of a generated tree must equal the union of the extractions of its terms, without duplicates, each output a fix-point and the list self-satisfying; every listed id in every form and case must come back in list casing with '+' and exception preserved (checked behaviourally).", NOTE_EX),
    "C07": c("C07", "property-based testing (rapid): metamorphic relations between an allowed list and its permutations / duplications / re-spellings / extensions",
             "For generated (expression, list) pairs the verdict must be invariant under permutation, duplication and re-spelling of entries and monotone under extension."),
    "C08": c("C08", "property-based testing: metamorphic substitution of equivalent spellings, swept over every listed id, both pairs and all contexts",
             "For every listed id X, X+ / X-or-later and X / X-only are swapped as expression term, allowed entry and inside a compound expression against every id of X's family with and without '+', own spellings and unrelated ids, with and without exceptions; validity and verdict must not change.", NOTE_EX),
    "C09": c("C09", "property-based testing: exhaustive case-variant sweep over every listed id and exception in every position, plus rapid-generated trees spelled twice (metamorphic)",
             "Every listed license and exception id in lower, upper and seeded mixed case in every position must behave exactly like the list spelling, and ExtractLicenses must report the list casing; generated trees and lists are compared between list casing and re-cased spellings.", NOTE_EX),
    "C10": c("C10", "property-based testing (rapid): metamorphic Boolean-algebra rewrites (commutativity, associativity, idempotence, absorption, distribution, factoring) and the compositional law; no reference evaluator involved",
             "A generated tree and its image under 1-6 generated sound rewrites must get the same verdict under generated lists and the same ExtractLicenses set when the rewrites keep the term set; Satisfies('(E) AND/OR (F)') must equal the conjunction/disjunction of the parts."),
    "C11": c("C11", "property-based testing over a finite domain: exhaustive enumeration of the family table and the id lists against a structural validity predicate and the natural version order parsed from the ids",
             "Every table entry is checked structurally (listed, one position, ascending versions, complete families) and every in-family pair and every table id against every listed id of other families is checked behaviourally against the natural order of the version numbers, independent of the table index.", NOTE_EX),
    "C12": c("C12", "differential testing and property-based testing: independent JSON reader vs shipped tables, byte-for-byte regeneration in a scratch directory, the generator run on rapid-generated SPDX-shaped documents against a reference renderer, exhaustive table invariants",
             "The three id tables are compared element for element with cmd/*.json, the generator is rebuilt and re-run to reproduce the committed files byte for byte, it is exercised on generated documents it has never seen, and every id is validated in and out of its proper position.", NOTE_EX),
    "C13": c("C13", "stateful property-based testing (rapid-generated call histories with repeats and concurrent bursts, shrunk as one value) under the Go race detector, with fd-level stdout/stderr capture and argument sentinels",
             "Generated histories of calls, repeats and bursts of goroutines sharing the argument slices; invariants: arguments (incl. spare capacity) untouched, no bytes on fd 1/2, every result equal to the first result of the same call in any order and under concurrency, race detector silent.",
             NOTE + " Schedules are not controlled: the race detector covers happens-before violations on executed paths only."),
    "C14": c("C14", "property-based testing over size-parameterised input families and rapid-generated short trees; oracle: measured growth law of allocation (runtime.MemStats) and CPU time plus absolute bounds for short inputs",
             "Twenty input families are escalated in size for each entry point; the local growth exponent of allocation and CPU time over input length must stay polynomial, and any call on <= 512 bytes must stay under 256 MB / 10 s CPU; escalation stops at the first breach so an exponential tree is caught at megabytes.",
             NOTE + " Cost is observed as allocation and CPU time, not proven asymptotically; thresholds are growth-based, not calibrated to today's constants."),
    "C15": c("C15", "property-based testing (rapid): generated prefix ++ bad identifier ++ suffix inputs; oracle: the cited offset and lexeme are true of the caller's string",
             "Inputs with an unknown or missing identifier after generated clean prefixes (incl. -or-later rewrites and folded '+') go to Satisfies (both positions) and ExtractLicenses; the error must cite an in-range offset at which the whole lexeme / the end of a ...Ref- prefix is found."),
}
NOT_YET = {}
