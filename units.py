"""Which go test functions decide which property, and how much work each does per tier."""

UNITS = {
    "C01": [
        dict(test="TestC01_Tree", quick=dict(checks=1500, shards=4), thorough=dict(checks=40000, shards=16)),
        dict(test="TestC01_Distractors", quick=dict(), thorough=dict()),
        dict(test="TestC01_Wide", quick=dict(checks=150, shards=2, shrinktime="10s"), thorough=dict(checks=1500, shards=8)),
    ],
}

UNITS["C03"] = [
    dict(test="TestC03_Tokens", quick=dict(checks=3000, shards=2), thorough=dict(checks=60000, shards=8)),
    dict(test="TestC03_Edits", quick=dict(checks=25, shards=8, shrinktime="10s"), thorough=dict(checks=250, shards=16, timeout=3000)),
    dict(test="TestC03_Raw", quick=dict(checks=3000, shards=2), thorough=dict(checks=60000, shards=8)),
    dict(test="TestC03_Lists", quick=dict(checks=1500, shards=1), thorough=dict(checks=30000, shards=4)),
    dict(test="TestC03_Pairs", quick=dict(), thorough=dict()),
    dict(test="TestC03_Tails", quick=dict(), thorough=dict()),
    dict(test="TestC03_Sizes", crash_is_violation=True, quick=dict(), thorough=dict(timeout=3000)),
    dict(test="TestC03_StackLimit", quick=dict(skip=True), thorough=dict(timeout=3000)),
    dict(fuzz="FuzzAPI", thorough=dict(fuzztime=15)),
]

UNITS["C05"] = [
    dict(test="TestC05_Random", quick=dict(checks=10000, shards=2), thorough=dict(checks=150000, shards=8)),
    dict(test="TestC05_NearValid", quick=dict(checks=5000, shards=2), thorough=dict(checks=100000, shards=8)),
    dict(test="TestC05_Exhaustive", quick=dict(), thorough=dict()),
    dict(test="TestC05_DoublePlus", quick=dict(), thorough=dict()),
    dict(test="TestC05_Long", quick=dict(), thorough=dict(timeout=3000)),
    dict(test="TestC05_Confusables", quick=dict(checks=3000, shards=2), thorough=dict(checks=60000, shards=8)),
    dict(fuzz="FuzzAPI", thorough=dict(fuzztime=15)),
]

UNITS["C04"] = [
    dict(test="TestC04_Agreement", quick=dict(checks=2500, shards=4), thorough=dict(checks=50000, shards=16)),
    dict(fuzz="FuzzAPI", thorough=dict(fuzztime=15)),
]

UNITS["C02"] = [
    dict(test="TestC02_Families", quick=dict(), thorough=dict()),
    dict(test="TestC02_AllPairs", quick=dict(), thorough=dict()),
    dict(test="TestC02_Random", quick=dict(checks=2500, shards=2), thorough=dict(checks=50000, shards=12)),
]

UNITS["C11"] = [
    dict(test="TestC11_Structure", quick=dict(), thorough=dict()),
    dict(test="TestC11_InFamily", quick=dict(), thorough=dict()),
    dict(test="TestC11_CrossFamily", quick=dict(), thorough=dict()),
]

UNITS["C06"] = [
    dict(test="TestC06_Trees", quick=dict(checks=1500, shards=4), thorough=dict(checks=40000, shards=16)),
    dict(test="TestC06_Terms", quick=dict(), thorough=dict()),
    dict(test="TestC06_Wide", quick=dict(checks=400, shards=4), thorough=dict(checks=2000, shards=16)),
]

UNITS["C07"] = [
    dict(test="TestC07_Lists", quick=dict(checks=1500, shards=4), thorough=dict(checks=40000, shards=16)),
]

UNITS["C08"] = [
    dict(test="TestC08_Sweep", quick=dict(), thorough=dict()),
]

UNITS["C09"] = [
    dict(test="TestC09_Sweep", quick=dict(), thorough=dict()),
    dict(test="TestC09_Trees", quick=dict(checks=1000, shards=4), thorough=dict(checks=25000, shards=16)),
]

UNITS["C10"] = [
    dict(test="TestC10_Rewrites", quick=dict(checks=1000, shards=5), thorough=dict(checks=30000, shards=16)),
    dict(test="TestC10_Wide", quick=dict(checks=150, shards=2, shrinktime="10s"), thorough=dict(checks=1000, shards=8)),
    dict(test="TestC10_Compose", quick=dict(checks=800, shards=3), thorough=dict(checks=20000, shards=16)),
]

UNITS["C12"] = [
    dict(test="TestC12_Tables", quick=dict(), thorough=dict()),
    dict(test="TestC12_Regenerate", quick=dict(), thorough=dict()),
    dict(test="TestC12_Refresh", quick=dict(), thorough=dict(timeout=3000)),
    dict(test="TestC12_Generator", quick=dict(checks=40, shards=1), thorough=dict(checks=500, shards=4)),
]

UNITS["C13"] = [
    dict(test="TestC13_ColdStart", race=True, crash_is_violation=True,
         quick=dict(checks=1, shards=6, shrinktime="2s"), thorough=dict(checks=1, shards=48, shrinktime="2s")),
    dict(test="TestC13_Histories", race=True, crash_is_violation=True,
         quick=dict(checks=60, shards=5, shrinktime="5s"), thorough=dict(checks=1500, shards=8, shrinktime="10s")),
    dict(test="TestC13_Hammer", race=True, crash_is_violation=True,
         quick=dict(checks=3, shards=3, shrinktime="5s"), thorough=dict(checks=8, shards=8, shrinktime="10s")),
    dict(test="TestC13_Quiet", quick=dict(checks=600, shards=2), thorough=dict(checks=5000, shards=8)),
    dict(test="TestC13_Orders", quick=dict(checks=60, shards=2, shrinktime="10s"), thorough=dict(checks=1500, shards=8, shrinktime="20s")),
    dict(test="TestC13_Histories", race=True, crash_is_violation=True,
         quick=dict(skip=True), thorough=dict(checks=1500, shards=8, shrinktime="10s", env={"GOMAXPROCS": "2"})),
]

UNITS["C14"] = [
    dict(test="TestC14_Families", quick=dict(), thorough=dict(timeout=3000)),
    dict(test="TestC14_RandomTrees", quick=dict(checks=400, shards=2), thorough=dict(checks=3000, shards=4)),
    dict(test="TestC14_GeneratedFamilies", quick=dict(checks=25, shards=4, shrinktime="30s"), thorough=dict(checks=120, shards=8, shrinktime="60s", timeout=3000)),
]

UNITS["C15"] = [
    dict(test="TestC15_Offsets", quick=dict(checks=5000, shards=2), thorough=dict(checks=60000, shards=16)),
    dict(test="TestC15_AnyError", quick=dict(checks=4000, shards=2), thorough=dict(checks=60000, shards=8)),
]

RULES = {
    "C12": "the shipped id tables equal the SPDX JSON in cmd/ and the generator reproduces them byte for byte; table invariants",
    "C13": "calls are pure: no argument mutation, no output, no history dependence, race-free under concurrency",
    "C14": "cost is polynomial in input size (allocation and CPU growth laws along input families; absolute bound for short inputs)",
    "C15": "error messages cite an offset and lexeme that are true of the caller's own string",
    "C06": "ExtractLicenses returns exactly the distinct terms of the expression, each canonical, a fix-point and self-satisfying",
    "C07": "the allowed list is a set and the verdict is monotone in it (metamorphic relations between related lists)",
    "C08": "X+ / X-or-later and X / X-only are interchangeable in every context (metamorphic substitution over every listed id)",
    "C09": "letter case of listed ids never matters; ExtractLicenses reports list casing",
    "C10": "expressions denoting the same Boolean function get the same verdict (metamorphic rewrites, no reference evaluator)",
    "C02": "single-term matching: Satisfies(a,{b}) vs the documented version / + / exception / reference rules read against the shipped family table",
    "C11": "'+' reaches exactly the later versions of the same family in natural version order; the family table is well-formed",
    "C04": "one notion of validity: ValidateLicenses / ExtractLicenses / Satisfies agree on which strings are valid and return errors exactly for invalid input",
    "C05": "the accepted language equals the documented grammar: ValidateLicenses verdict vs a reference recogniser over generated token sequences",
    "C03": "no argument makes ValidateLicenses / Satisfies / ExtractLicenses panic (recover() around every call)",
    "C01": "Satisfies equals the Boolean value of the generated formula under per-term verdicts",
}

# regression tier first: corpus/<ID>.json (hand-minimised reproducers of every defect found so far)
import os as _os
for _p in list(UNITS):
    if _os.path.exists(_os.path.join(_os.path.dirname(_os.path.abspath(__file__)), "corpus", _p + ".json")):
        UNITS[_p].insert(0, dict(test="TestCorpus", quick=dict(env={"VERIF_PROP": _p}), thorough=dict(env={"VERIF_PROP": _p})))
