"""Which go test functions decide which property, and how much work each does per tier."""

UNITS = {
    "C01": [
        dict(test="TestC01_Tree", quick=dict(checks=1500, shards=4), thorough=dict(checks=40000, shards=16)),
    ],
}

RULES = {
    "C01": "Satisfies equals the Boolean value of the generated formula under per-term verdicts",
}
