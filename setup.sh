#!/bin/sh
# setup_cmd: verify the toolchain and warm the build cache for the harness (offline).
set -e
export GOFLAGS=-mod=mod GOPROXY=off GOSUMDB=off GOTOOLCHAIN=local
cd "$(dirname "$0")/harness"
go version
tmp=$(mktemp -d)
trap 'rm -rf "$tmp"' EXIT
go vet .
go test -c -o "$tmp/harness.test" .
go test -c -race -o "$tmp/harness-race.test" .
echo "setup ok"
