#!/usr/bin/env python3
"""Writes MANIFEST.json from the table below (kept in one place so it stays valid)."""
import json, os, sys
ROOT = os.path.dirname(os.path.dirname(os.path.abspath(__file__)))
sys.path.insert(0, ROOT)
from units import UNITS
from manifest_text import CHECKS, NOT_YET

props = [json.loads(l)["id"] for l in open(os.path.join(ROOT, "properties.jsonl"))]
checks, na = [], []
for p in props:
    if p in UNITS and p in CHECKS:
        c = CHECKS[p]
        checks.append(dict(property_id=p, quick_cmd="./check %s quick" % p, thorough_cmd="./check %s thorough" % p,
                           evidence_file="evidence/%s.json" % p, replay_cmd_template="./check %s --replay {path}" % p,
                           engine="harness",
                           level_claimed=dict(category="exploration", text=c["text"], design_ref=c["ref"]),
                           level_note=c["note"], technique=c["technique"]))
    else:
        na.append(dict(property_id=p, reason=NOT_YET.get(p, "check not implemented yet in this snapshot of /verif (planned, see DESIGN.md section 4)")))
m = dict(version=1, setup_cmd="./setup.sh",
         hooks=dict(guard="verif", enable="no hooks: the harness is an external Go module (harness/go.mod: replace github.com/github/go-spdx/v2 => /repo) that calls the exported API only; every check rebuilds it against /repo's working tree",
                    baseline_off_cmd="python3 tools/baseline.py /repo", source_commits=[], add_only=True),
         engines=[dict(name="harness", path="harness/", serves_properties=[c["property_id"] for c in checks],
                       kind_free_text="Go test package: pgregory.net/rapid v1.3.0 generators + state machine, exhaustive sweeps over the shipped id tables, native go fuzzing (thorough); python3 driver ./check shards, merges stats, writes replays and evidence")],
         checks=checks,
         notes="Exit 0 = held on everything explored (KNOWN-FINDING lines possible), 1 = VIOLATION line(s), 2 = inconclusive/infrastructure. known_findings.json lists recorded and repaired defects. VERIF_SEED selects the rapid seeds.",
         not_applicable=na)
json.dump(m, open(os.path.join(ROOT, "MANIFEST.json"), "w"), indent=1)
print("claimed:", [c["property_id"] for c in checks], "not_applicable:", [n["property_id"] for n in na])
