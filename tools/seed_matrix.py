#!/usr/bin/env python3
"""Runs every seeded change through checks and records the outcome in seeded/<id>/meta.json.
usage: tools/seed_matrix.py <tier> [--props C01,C02] [--only id,id] [--jobs N]"""
import json, os, re, subprocess, sys, shutil, tempfile
from concurrent.futures import ThreadPoolExecutor
ROOT = os.path.dirname(os.path.dirname(os.path.abspath(__file__)))
ALL = ["C%02d" % i for i in range(1, 16)]
args = sys.argv[1:]
tier = args[0]
props, only, jobs = ALL, None, 3
for i, a in enumerate(args):
    if a == "--props": props = args[i + 1].split(",")
    if a == "--only": only = args[i + 1].split(",")
    if a == "--jobs": jobs = int(args[i + 1])


def one(sid):
    d = os.path.join(ROOT, "seeded", sid)
    stage = tempfile.mkdtemp(prefix="seedrun-")
    try:
        shutil.copy(os.path.join(d, "patch.diff"), stage)
        if os.path.exists(os.path.join(d, "demo_test.go.txt")):
            shutil.copy(os.path.join(d, "demo_test.go.txt"), os.path.join(stage, "demo_test.go"))
        for f in ("demo.sh", "notes.md"):
            if os.path.exists(os.path.join(d, f)):
                shutil.copy(os.path.join(d, f), stage)
        env = dict(os.environ, VERIF_JOBS="6")
        p = subprocess.run([os.path.join(ROOT, "tools", "seed_eval.py"), stage, tier] + props, stdout=subprocess.PIPE, stderr=subprocess.STDOUT, text=True, env=env)
        out = p.stdout
    finally:
        shutil.rmtree(stage, ignore_errors=True)
    meta_path = os.path.join(d, "meta.json")
    meta = json.load(open(meta_path)) if os.path.exists(meta_path) else {}
    m = re.search(r"^\{.*\}$", out, re.M)
    if m:
        meta["confirmation"] = json.loads(m.group(0))
    res = meta.setdefault("checks_" + tier, {})
    for line in out.splitlines():
        mm = re.match(r"^(C\d\d) %s exit=(\d+) violations=(\d+) ?(.*)$" % tier, line)
        if mm:
            res[mm.group(1)] = dict(exit=int(mm.group(2)), violations=int(mm.group(3)), first=mm.group(4)[:300])
    meta["detected_by_" + tier] = sorted(k for k, v in res.items() if v["exit"] == 1)
    json.dump(meta, open(meta_path, "w"), indent=1)
    print(sid, meta.get("confirmation"), "detected by", meta["detected_by_" + tier], flush=True)


ids = sorted(os.listdir(os.path.join(ROOT, "seeded")))
if only:
    ids = [i for i in ids if i in only]
with ThreadPoolExecutor(max_workers=jobs) as ex:
    list(ex.map(one, ids))
