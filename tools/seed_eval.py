#!/usr/bin/env python3
"""Confirm a seeded change and run checks against it, in a scratch worktree of /repo (never in /repo).

usage: tools/seed_eval.py <dir with patch.diff + demo_test.go|demo.sh> <tier> <ID> [<ID>...]
Prints: demo on clean tree (must pass), existing suite with the patch (must pass), demo with the
patch (must fail), then one line per property check run against the patched tree.
"""
import json, os, shutil, subprocess, sys, tempfile
ROOT = os.path.dirname(os.path.dirname(os.path.abspath(__file__)))
ENV = dict(os.environ, GOFLAGS="-mod=mod", GOPROXY="off", GOSUMDB="off", GOTOOLCHAIN="local")


def sh(cmd, cwd, env=ENV, timeout=3600):
    p = subprocess.run(cmd, cwd=cwd, env=env, shell=isinstance(cmd, str), stdout=subprocess.PIPE, stderr=subprocess.STDOUT, text=True, timeout=timeout)
    return p.returncode, p.stdout


def demo(tree, seed):
    d = os.path.join(seed, "demo_test.go")
    if os.path.exists(d):
        dst = os.path.join(tree, "spdxexp", "zz_demo_test.go")
        shutil.copy(d, dst)
        try:
            race = "-race" in open(os.path.join(seed, "notes.md")).read() if os.path.exists(os.path.join(seed, "notes.md")) else False
            import re
            names = re.findall(r"^func (Test\w+)\(", open(d).read(), re.M)
            rc, out = sh(["go", "test", "-count=1"] + (["-race"] if race else []) + ["-run", "^(%s)$" % "|".join(names), "./spdxexp/"], tree)
        finally:
            os.remove(dst)
        return rc, out
    d = os.path.join(seed, "demo.sh")
    if os.path.exists(d):
        return sh(["sh", d, tree], tree)
    return None, "no demo"


def main():
    seed, tier, props = os.path.abspath(sys.argv[1]), sys.argv[2], sys.argv[3:]
    work = tempfile.mkdtemp(prefix="seedeval-")
    tree = os.path.join(work, "tree")
    res = {}
    try:
        sh(["git", "-C", "/repo", "worktree", "add", "-q", "--detach", tree, "HEAD"], "/")
        rc, out = demo(tree, seed)
        res["demo_clean_passes"] = rc == 0
        if rc != 0:
            print(out[-1500:])
        rc, out = sh(["git", "apply", os.path.join(seed, "patch.diff")], tree)
        if rc != 0:
            print("PATCH DOES NOT APPLY\n" + out)
            return 2
        rc, out = sh([sys.executable, os.path.join(ROOT, "tools", "baseline.py"), tree], tree)
        res["suite_with_patch_passes"] = rc == 0
        res["suite"] = out.strip().splitlines()[0] if out.strip() else ""
        rc, out = demo(tree, seed)
        res["demo_patched_fails"] = rc not in (0, None)
        print(json.dumps(res))
        for p in props:
            env = dict(ENV, VERIF_REPO=tree, VERIF_OUTDIR=os.path.join(work, "out"))
            if os.environ.get("VERIF_SEED"):
                env["VERIF_SEED"] = os.environ["VERIF_SEED"]
            rc, out = sh([os.path.join(ROOT, "check"), p, tier], ROOT, env)
            vio = [l for l in out.splitlines() if l.startswith("VIOLATION")]
            first = ""
            if vio:
                i = out.splitlines().index(vio[0])
                first = " | ".join(out.splitlines()[i + 1:i + 3])[:420]
            print("%s %s exit=%d violations=%d %s" % (p, tier, rc, len(vio), first))
            if rc == 2:
                print("   " + "\n   ".join([l for l in out.splitlines() if "INCONCLUSIVE" in l or "BUILD" in l][:3])[:600])
    finally:
        sh(["git", "-C", "/repo", "worktree", "remove", "--force", tree], "/")
        shutil.rmtree(work, ignore_errors=True)
    return 0


if __name__ == "__main__":
    sys.exit(main())
