#!/usr/bin/env python3
"""What each seeded change is (written from the sub-agents' reports and my own reading of the patches);
merged into seeded/<id>/meta.json by `tools/seed_about.py --merge`."""
import json, os, sys
ROOT = os.path.dirname(os.path.dirname(os.path.abspath(__file__)))
ABOUT = {
 "C01-1": ("C01", "parser shares one license record per id within a parse, so '+' / WITH written on one occurrence leaks to every occurrence", "one expression repeating an id with different modifiers, e.g. 'Apache-1.0 AND (MIT OR Apache-1.0+)'"),
 "C01-2": ("C01", "sortAndDedup precomputes sort keys that go stale while sorting; the in-place compaction overwrites the only copy of an entry", "allowed list with an entry repeated in adjacent positions followed by an alphabetically smaller entry that the expression needs"),
 "C02-1": ("C02", "early exit in the range-table scan assuming byte-wise alphabetical order (the table is ordered case-insensitively)", "two versions of the APSL or ASWF-Digital-Assets family with '+' on a side"),
 "C02-2": ("C02", "LicenseRef comparison routed through the case-folding equality helper", "two references equal up to letter case"),
 "C03-1": ("C03", "sortAndDedup nils the tail behind the deduplicated prefix; Satisfies keeps iterating the full slice", "allowed list with duplicates after normalisation AND an evaluated term that matches no entry"),
 "C03-2": ("C03", "binary search over the id tables without the bounds check", "an id that sorts after the last table entry (zzz, ZPL-9.9, Zlib-or-later)"),
 "C04-1": ("C04", "allowed-list fast path builds a license node for any id licenseLookup knows, ignoring that it may be an exception id", "a bare exception id as allowed entry"),
 "C04-2": ("C04", "parse results memoised under a whitespace-normalised key (strings.Fields), while the scanner only accepts blanks", "two strings in one process equal after whitespace collapsing but differing in validity (tab/LF vs blank); the first one parsed decides both"),
 "C05-1": ("C05", "parseLicenseRef returns nil without error when DocumentRef-x: is followed by a non-LicenseRef token", "'DocumentRef-d:MIT' and variants"),
 "C05-2": ("C05", "length-based early exit before normalizeLicense", "a listed id of >= 32 (-only) / >= 28 (-or-later) characters with the suffix"),
 "C06-1": ("C06", "ExtractLicenses dedups by a struct key that does not record whether the node is a license or a LicenseRef", "a license and a LicenseRef whose name equals the license id: 'MIT AND LicenseRef-MIT'"),
 "C06-2": ("C06", "removeDuplicateStrings returns a slice aliasing a sync.Pool scratch array", "holding one ExtractLicenses result across a later call"),
 "C07-1": ("C07", "Satisfies uses the dedup result; neighbours are compared without the exception value", "allowed list with 'L WITH X1' and 'L WITH X2'; the one sorting later is dropped"),
 "C07-2": ("C07", "fast path for bare active ids derives hasPlus from a case-sensitive suffix test on the caller's spelling", "allowed entry 'GPL-2.0-OR-LATER' and an expression needing a strictly later version"),
 "C08-1": ("C08", "the -or-later rewrite uses strings.Replace on the prefix and hits an earlier occurrence", "a listed GNU '*-or-later' id followed later by a synthesised 'X-or-later'"),
 "C08-2": ("C08", "length-based early exit forgets the suffixed spellings of the longest ids", "X-only / X-or-later for the 34 longest active ids"),
 "C09-1": ("C09", "allowed-list fast path keeps the caller's spelling of a bare active id", "case-mutated active id in the allowed list and a term that only matches through the range table"),
 "C09-2": ("C09", "hand-rolled ASCII case fold with an off-by-one that never folds 'Z'", "one of the 21 ids containing z/Z written with that letter in the other case"),
 "C10-1": ("C10", "per-call verdict memo keyed by the lower-cased term string", "two references differing only in case in one expression"),
 "C10-2": ("C10", "parser drops a 'repeated' left operand found anywhere in the right operand regardless of operator", ">= 4 term occurrences with the repeat only inside a nested group of the other operator"),
 "C11-1": ("C11", "same mechanism as C02-1 (independently produced)", "APSL / ASWF-Digital-Assets pairs"),
 "C11-2": ("C11", "LicenseRanges() returns a one-level copy of a package-level table", "a caller editing the returned nested slices, then any later call"),
 "C12-1": ("C12", "generator's exception struct tagged with the wrong JSON key and tables regenerated: a deprecated exception enters the table", "GetExceptions() vs cmd/exceptions.json (Nokia-Qt-exception-1.1)"),
 "C12-2": ("C12", "first-letter bucket index skips ids that do not start with a letter", "0BSD, 3D-Slicer-1.0, 389-exception"),
 "C13-1": ("C13", "Satisfies de-duplicates the caller's allowedList in place", "allowed list with a byte-identical repeat followed by a distinct entry"),
 "C13-2": ("C13", "lazily built id indexes without synchronisation", "the first lookups of a process made concurrently (cold start)"),
 "C14-1": ("C14", "OR evaluation order 'optimisation' computes the cheaper operand's demand twice per OR node: allocation-free exponential CPU time", "unparenthesised 'A AND B OR A AND B OR ... OR Z'"),
 "C14-2": ("C14", "node.terms appends the accumulator twice: exponential slice growth hidden by later de-duplication", "left-nested parentheses in ExtractLicenses"),
 "C15-1": ("C15", "the rewrite records a constant 8 removed bytes although 'X-or-later+' removes 9", "a prefix containing a synthesised 'X-or-later+' before the bad id"),
 "R2-C01-1": ("C01", "per-call memo of term verdicts whose key for a reference drops the DocumentRef", "one expression with the same LicenseRef under different document qualification, list covering only one"),
 "R2-C01-2": ("C01", "cross-call cache of parsed allowed lists keyed by {len, XOR of entry hashes}: an entry listed twice cancels out", "two Satisfies calls in one process with same-length lists that differ only in which entry is duplicated"),
 "R2-C02-1": ("C02", "process-wide cache in getLicenseRange that stores every id of the group it found, first writer wins", "fresh process whose first MPL comparison involves MPL-2.0-no-copyleft-exception, then MPL-2.0 vs MPL-1.x+ (rides on the duplicated MPL ids, finding F10)"),
 "R2-C02-2": ("C02", "same mechanism as C02-2 (independently produced)", "references equal up to case"),
 "R2-C03-1": ("C03", "process-wide cache of parsed allowed entries stores the node before the compound-expression rejection", "the same compound allowed entry in a second call: nil dereference in sortAndDedup"),
 "R2-C03-2": ("C03", "rangesAreCompatible drops the nil check for the second range", "both sides '+', expression id in the table, allowed id not: Satisfies(\"Apache-2.0+\", {\"MIT+\"})"),
 "R2-C04-1": ("C04", "process-wide memo of unknown ids ignoring the '+' lookahead", "GFDL-1.x-[no-]invariants validated bare (unknown) before its '+' form (valid) in one process"),
 "R2-C04-2": ("C04", "ValidateLicenses checks lists of >= 64 elements in 4 goroutines and drops the len%4 remainder", "list of >= 64 entries, len%4 != 0, invalid element in the tail"),
 "R2-C05-1": ("C05", "process-wide cache of parsed trees keyed by the token values only (token role lost)", "a valid expression validated first, then its twin with LicenseRef-<same id> / DocumentRef-x:<id>"),
 "R2-C05-2": ("C05", "-only accepted for deprecated-only ids (lookupID instead of lookupCurrentID)", "Nunit-only, eCos-2.0-only: an OPEN spelling in DESIGN.md section 3.1 (the statement's grammar arguably admits it); deliberately not asserted"),
 "R2-C06-1": ("C06", "de-duplication sorts ignoring case but compares neighbours exactly", "two references differing only in case, one repeated, the other between the occurrences"),
 "R2-C06-2": ("C06", "process-wide id cache whose key ignores the '+' lookahead", "bare deprecated GNU id scanned before its '+' form: ExtractLicenses(\"LGPL-3.0+\") changes from LGPL-3.0-or-later+ to LGPL-3.0+"),
 "R2-C07-1": ("C07", "same mechanism as R2-C01-2 (independently produced)", "colliding duplicated lists across calls"),
 "R2-C07-2": ("C07", "sortAndDedup compares neighbours with the case-folding equality helper; a wrongly dropped reference survives in the slice tail unless overwritten", "two references differing in case adjacent after sorting plus an entry sorting after them"),
 "R2-C08-1": ("C08", "verdict memo for >= 4-term expressions keyed by id and '+', dropping the exception", "a GNU id with and without exception in one expression; respelling ONE occurrence as X-only flips the verdict"),
 "R2-C08-2": ("C08", "case-sensitive map for the X+ -> X-or-later fold", "gfdl-1.1-invariants+ in non-canonical case (base on no list: outside C08's quantified domain; seen by C09 through re-cased deprecated GNU ids)"),
 "R2-C09-1": ("C09", "shared memo of re-cased spellings between the active and deprecated lookups", "re-cased deprecated id seen bare, later the identical spelling with '+' or -only"),
 "R2-C09-2": ("C09", "lower-cased shadow copy of the expression goes stale after the -or-later rewrite", "re-cased id before AND after a synthesised X-or-later in one expression"),
 "R2-C10-1": ("C10", "same mechanism as C10-1 (independently produced)", "references differing in case in one expression"),
 "R2-C10-2": ("C10", "OR chains of >= 3 operands collected in a scratch slice shared across nesting", ">= 7 terms: a parenthesised 3-chain first, later a 3-chain whose third or later operand is another parenthesised 3-chain"),
 "R2-C11-1": ("C11", "per-expression verdict cache for >= 8 terms whose key forgets '+'", "X-v1 and X-v1+ in one expression of >= 8 terms with different verdicts"),
 "R2-C11-2": ("C11", "bit-set summary index for allowed lists of >= 16 entries excludes a '+' entry's own version", "allowed list >= 16 entries, GNU X-only vs X-or-later at the same version"),
 "R2-C12-1": ("C12", "generator filters ids through ^[A-Za-z0-9.-]+$ and the table is regenerated: the six deprecated 'X+' ids vanish", "GetDeprecated() vs cmd/licenses.json (generator and table agree with each other)"),
 "R2-C12-2": ("C12", "same mechanism as C04-1 (independently produced)", "bare exception id as allowed entry"),
 "R2-C13-1": ("C13", "process-wide cache of allowed entries keyed by the lower-cased spelling", "two calls whose allowed lists hold case variants of one reference"),
 "R2-C13-2": ("C13", "mutex-guarded one-entry cache of the last parsed compound expression with a check-then-act gap (no data race)", "goroutines re-parsing different compound expressions concurrently"),
 "R2-C14-1": ("C14", "depth() computes the left depth twice when the left operand is deeper: allocation-free exponential CPU", "left-nested OR groups in Satisfies"),
 "R2-C14-2": ("C14", "allowed entries are classified through expand(false): the exponential expansion is back on the allowed-list argument", "a compound allowed entry (refused, but only after the expansion)"),
 "R2-C15-1": ("C15", "process-wide parse cache keyed by the blank-collapsed source; cached errors keep the first spelling's offsets", "the same invalid expression with different spacing, twice in one process"),
 "R2-C15-2": ("C15", "same mechanism as C15-1 (independently produced)", "X-or-later+ before the bad id"),
 "C15-2": ("C15", "scan results (errors included) cached under the blank-trimmed source", "the same invalid expression with different leading blanks, twice in one process"),
}
if "--merge" in sys.argv:
    for sid, (prop, what, needs) in ABOUT.items():
        p = os.path.join(ROOT, "seeded", sid, "meta.json")
        if not os.path.isdir(os.path.dirname(p)):
            continue
        meta = json.load(open(p)) if os.path.exists(p) else {}
        meta.update(property=prop, change=what, needs_to_manifest=needs, origin="sub-agent given only the property text and a scratch worktree",
                    ran="tools/seed_eval.py (scratch worktree of /repo: demo alone on the clean tree, existing suite with the patch, demo alone with the patch) and tools/seed_matrix.py quick (every property's quick check with VERIF_REPO=<patched tree>)")
        json.dump(meta, open(p, "w"), indent=1)
    print("merged", len(ABOUT))
