#!/usr/bin/env python3
"""What each seeded change is (written from the sub-agents' reports and my own reading of the patches);
merged into seeded/<id>/meta.json by `tools/seed_about.py --merge`."""
import json, os, sys
ROOT = os.path.dirname(os.path.dirname(os.path.abspath(__file__)))
ABOUT = {
 "C01-1": ("C01", "parser shares one license record per id within a parse, so '+' / WITH written on one occurrence leaks to every occurrence", "one expression repeating an id with different modifiers, e.g. 'Apache-1.0 AND (MIT OR Apache-1.0+)'"),
 "C01-2": ("C01", "sortAndDedup precomputes sort keys that go stale while sorting; the in-place compaction overwrites the only copy of an entry", "allowed list with an entry repeated in adjacent positions followed by an alphabetically smaller entry that the expression needs"),
 "C02-1": ("C02", "early exit in the range-table scan assuming byte-wise alphabetical order (the table is ordered case-insensitively)", "two versions of the APSL or ASWF-Digital-Assets family with '+' on a side"),
 "C02-2": ("C02", "LicenseRef comparison routed through the case-folding equality helper", "two references equal up to letter case"),
 "C03-1": ("C03", "sortAndDedup nils the tail behind the deduplicated prefix; Satisfies keeps iterating the full slice", "allowed list with duplicates after normalisation AND an evaluated term that matches no entry"),
 "C03-2": ("C03", "binary search over the id tables without the bounds check", "an id that sorts after the last table entry (zzz, ZPL-9.9, Zlib-or-later)"),
 "C04-1": ("C04", "allowed-list fast path builds a license node for any id licenseLookup knows, ignoring that it may be an exception id", "a bare exception id as allowed entry"),
 "C04-2": ("C04", "parse results memoised under a whitespace-normalised key (strings.Fields), while the scanner only accepts blanks", "two strings in one process equal after whitespace collapsing but differing in validity (tab/LF vs blank); the first one parsed decides both"),
 "C05-1": ("C05", "parseLicenseRef returns nil without error when DocumentRef-x: is followed by a non-LicenseRef token", "'DocumentRef-d:MIT' and variants"),
 "C05-2": ("C05", "length-based early exit before normalizeLicense", "a listed id of >= 32 (-only) / >= 28 (-or-later) characters with the suffix"),
 "C06-1": ("C06", "ExtractLicenses dedups by a struct key that does not record whether the node is a license or a LicenseRef", "a license and a LicenseRef whose name equals the license id: 'MIT AND LicenseRef-MIT'"),
 "C06-2": ("C06", "removeDuplicateStrings returns a slice aliasing a sync.Pool scratch array", "holding one ExtractLicenses result across a later call"),
 "C07-1": ("C07", "Satisfies uses the dedup result; neighbours are compared without the exception value", "allowed list with 'L WITH X1' and 'L WITH X2'; the one sorting later is dropped"),
 "C07-2": ("C07", "fast path for bare active ids derives hasPlus from a case-sensitive suffix test on the caller's spelling", "allowed entry 'GPL-2.0-OR-LATER' and an expression needing a strictly later version"),
 "C08-1": ("C08", "the -or-later rewrite uses strings.Replace on the prefix and hits an earlier occurrence", "a listed GNU '*-or-later' id followed later by a synthesised 'X-or-later'"),
 "C08-2": ("C08", "length-based early exit forgets the suffixed spellings of the longest ids", "X-only / X-or-later for the 34 longest active ids"),
 "C09-1": ("C09", "allowed-list fast path keeps the caller's spelling of a bare active id", "case-mutated active id in the allowed list and a term that only matches through the range table"),
 "C09-2": ("C09", "hand-rolled ASCII case fold with an off-by-one that never folds 'Z'", "one of the 21 ids containing z/Z written with that letter in the other case"),
 "C10-1": ("C10", "per-call verdict memo keyed by the lower-cased term string", "two references differing only in case in one expression"),
 "C10-2": ("C10", "parser drops a 'repeated' left operand found anywhere in the right operand regardless of operator", ">= 4 term occurrences with the repeat only inside a nested group of the other operator"),
 "C11-1": ("C11", "same mechanism as C02-1 (independently produced)", "APSL / ASWF-Digital-Assets pairs"),
 "C11-2": ("C11", "LicenseRanges() returns a one-level copy of a package-level table", "a caller editing the returned nested slices, then any later call"),
 "C12-1": ("C12", "generator's exception struct tagged with the wrong JSON key and tables regenerated: a deprecated exception enters the table", "GetExceptions() vs cmd/exceptions.json (Nokia-Qt-exception-1.1)"),
 "C12-2": ("C12", "first-letter bucket index skips ids that do not start with a letter", "0BSD, 3D-Slicer-1.0, 389-exception"),
 "C13-1": ("C13", "Satisfies de-duplicates the caller's allowedList in place", "allowed list with a byte-identical repeat followed by a distinct entry"),
 "C13-2": ("C13", "lazily built id indexes without synchronisation", "the first lookups of a process made concurrently (cold start)"),
 "C14-1": ("C14", "OR evaluation order 'optimisation' computes the cheaper operand's demand twice per OR node: allocation-free exponential CPU time", "unparenthesised 'A AND B OR A AND B OR ... OR Z'"),
 "C14-2": ("C14", "node.terms appends the accumulator twice: exponential slice growth hidden by later de-duplication", "left-nested parentheses in ExtractLicenses"),
 "C15-1": ("C15", "the rewrite records a constant 8 removed bytes although 'X-or-later+' removes 9", "a prefix containing a synthesised 'X-or-later+' before the bad id"),
 "C15-2": ("C15", "scan results (errors included) cached under the blank-trimmed source", "the same invalid expression with different leading blanks, twice in one process"),
}
if "--merge" in sys.argv:
    for sid, (prop, what, needs) in ABOUT.items():
        p = os.path.join(ROOT, "seeded", sid, "meta.json")
        if not os.path.isdir(os.path.dirname(p)):
            continue
        meta = json.load(open(p)) if os.path.exists(p) else {}
        meta.update(property=prop, change=what, needs_to_manifest=needs, origin="sub-agent given only the property text and a scratch worktree",
                    ran="tools/seed_eval.py (scratch worktree of /repo: demo alone on the clean tree, existing suite with the patch, demo alone with the patch) and tools/seed_matrix.py quick (every property's quick check with VERIF_REPO=<patched tree>)")
        json.dump(meta, open(p, "w"), indent=1)
    print("merged", len(ABOUT))
