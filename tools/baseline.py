#!/usr/bin/env python3
"""Run the repository's own test suite (no build tags) and compare with /root/.vp/BASELINE.json.
Exit 0 iff every test that passes in the baseline passes now and nothing fails."""
import json, os, subprocess, sys
repo = sys.argv[1] if len(sys.argv) > 1 else "/repo"
env = dict(os.environ, GOFLAGS="-mod=mod", GOPROXY="off", GOSUMDB="off", GOTOOLCHAIN="local")
p = subprocess.run(["go", "test", "-json", "-vet=off", "-count=1", "-timeout", "25m", "./..."], cwd=repo, env=env,
                   stdout=subprocess.PIPE, stderr=subprocess.STDOUT, text=True)
passed, failed = set(), set()
for line in p.stdout.splitlines():
    try:
        e = json.loads(line)
    except Exception:
        continue
    if e.get("Test") and e.get("Action") in ("pass", "fail"):
        (passed if e["Action"] == "pass" else failed).add(e["Package"] + "::" + e["Test"])
base = set()
try:
    base = set(json.load(open("/root/.vp/BASELINE.json"))["stable_pass"])
except Exception as ex:
    print("baseline file not readable:", ex)
missing = sorted(base - passed)
print("passed=%d failed=%d baseline=%d missing_from_baseline=%d" % (len(passed), len(failed), len(base), len(missing)))
for m in missing[:20]:
    print("  MISSING", m)
for f in sorted(failed)[:20]:
    print("  FAILED", f)
sys.exit(0 if not failed and not missing and p.returncode == 0 else 1)
