#!/bin/sh
# usage: tools/try_seed.sh <patch.diff> <tier> <ID>...   — runs checks against a scratch copy of /repo
# carrying the patch (never touches /repo or /verif's evidence); prints one line per property.
set -e
patch=$(realpath "$1"); tier=$2; shift 2
root=$(cd "$(dirname "$0")/.." && pwd)
work=$(mktemp -d /tmp/tryseed-XXXXXX)
trap 'git -C /repo worktree remove --force "$work/tree" >/dev/null 2>&1; rm -rf "$work"' EXIT
git -C /repo worktree add -q --detach "$work/tree" HEAD
git -C "$work/tree" apply "$patch"
for id in "$@"; do
  set +e
  VERIF_REPO="$work/tree" VERIF_OUTDIR="$work/out" "$root/check" "$id" "$tier" > "$work/$id.log" 2>&1
  rc=$?
  set -e
  echo "$id exit=$rc $(grep -c '^VIOLATION' "$work/$id.log") violation(s); $(grep -m1 -A2 '^VIOLATION' "$work/$id.log" | tr '\n' ' ' | cut -c1-400)"
  if [ "$rc" = 2 ]; then grep -m3 'INCONCLUSIVE\|BUILD' "$work/$id.log" | cut -c1-300; fi
done
