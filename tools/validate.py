#!/usr/bin/env python3
import json, sys, glob, os
import jsonschema
ROOT = os.path.dirname(os.path.dirname(os.path.abspath(__file__)))
jsonschema.validate(json.load(open(ROOT + '/MANIFEST.json')), json.load(open('/root/.vp/MANIFEST.schema.json')))
n = 0
for f in sorted(glob.glob(ROOT + '/evidence/*.json')):
    jsonschema.validate(json.load(open(f)), json.load(open('/root/.vp/EVIDENCE.schema.json')))
    n += 1
print("MANIFEST ok; %d evidence files ok" % n)
