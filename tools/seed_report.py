#!/usr/bin/env python3
"""Prints the markdown table of DESIGN.md section 11 from seeded/*/meta.json."""
import json, os, sys
ROOT = os.path.dirname(os.path.dirname(os.path.abspath(__file__)))
rows = []
for sid in sorted(os.listdir(os.path.join(ROOT, "seeded")), key=lambda s: (s.startswith("R"), s)):
    p = os.path.join(ROOT, "seeded", sid, "meta.json")
    if not os.path.exists(p):
        continue
    m = json.load(open(p))
    det = m.get("detected_by_quick")
    conf = m.get("confirmation", {})
    ok = conf.get("demo_clean_passes") and conf.get("suite_with_patch_passes") and conf.get("demo_patched_fails")
    rows.append("| %s | %s | %s | %s | %s | %s |" % (sid, m.get("property", "?"), m.get("change", "").replace("|", "/"), m.get("needs_to_manifest", "").replace("|", "/"),
                                                "yes" if ok else "NO" if conf else "?", ", ".join(det) if det else ("none" if det is not None else "?")))
print("| id | breaks | change | needs, to manifest | confirmed | caught by (quick tier) |")
print("|---|---|---|---|---|---|")
print("\n".join(rows))
