package harness

import (
	"fmt"
	"sort"
	"strings"
	"testing"
	"time"
)

// LongCase: a long member of a valid input family, optionally with one token removed.
type LongCase struct {
	Family string `json:"family"`
	N      int    `json:"n"`
	Drop   int    `json:"drop"` // -1: intact (must be valid); otherwise the index of the blank-separated word removed (must be invalid)
}

func init() { registerReplay("c05-long", checkC05Long) }

var c05LongFamilies = []string{"and-chain", "or-chain", "nesting", "and-of-2ors", "or-of-ands", "alternating-nest", "left-nested-or", "right-nested-or", "or-later-rewrites", "with-exceptions", "refs-or"}

// checkC05Long: the grammar has no length, count or depth limit: long members of valid families are
// accepted by every entry point, and the same text with one operand or operator removed is rejected.
func checkC05Long(c LongCase) Outcome {
	expr, _ := buildFamily(c.Family, c.N)
	want := true
	if c.Drop >= 0 {
		words := strings.Split(expr, " ")
		d := c.Drop % len(words)
		w := strings.Trim(words[d], "()")
		if w == "WITH" || len(words) < 3 {
			return pass()
		}
		// removing one operand or one operator always leaves two operands or two operators adjacent
		// (parentheses of the removed word are kept so that they stay balanced)
		words[d] = strings.Replace(words[d], w, "", 1)
		expr = strings.Join(words, " ")
		want = false
	}
	key := fmt.Sprintf("C05/long/%s/%d/%d", c.Family, c.N, c.Drop)
	got, p := Valid1(expr)
	if p != "" {
		return fail("C05/panic/"+key, "ValidateLicenses panicked on family %s n=%d: %s", c.Family, c.N, p)
	}
	if got != want {
		return fail(key, "ValidateLicenses says valid=%v for family %s with n=%d (%d bytes, %q...), the grammar says %v: it has no limit on length, number of operands or nesting", got, c.Family, c.N, len(expr), firstN(expr, 80), want)
	}
	if want {
		if r := Extract(expr); r.IsErr || r.Panic != "" {
			return fail(key, "ExtractLicenses fails on a valid expression of family %s n=%d: %q %s", c.Family, c.N, r.Err, r.Panic)
		}
		if r := Satisfies(expr, []string{"MIT"}); r.IsErr || r.Panic != "" {
			return fail(key, "Satisfies fails on a valid expression of family %s n=%d: %s", c.Family, c.N, r)
		}
	}
	return pass()
}

func TestC05_Long(t *testing.T) {
	cfg := Cfg()
	max := cfg.Pick(3000, 60000)
	rec := NewRecorder("C05", "long", fmt.Sprintf("valid input families %v at n = 1, 2, 3, 5, 8, ... up to %d (so that every count, length and depth threshold in that range is crossed), each intact (must be accepted by ValidateLicenses, ExtractLicenses and Satisfies) and with one word removed at three positions (must be rejected); non-trivial = n >= 50; distinct by (family, n, removed word)", c05LongFamilies, max))
	defer rec.Finish(t)
	var sizes []int
	for a, b := 1, 2; a <= max; a, b = b, a+b {
		sizes = append(sizes, a)
	}
	for extra := 60; extra <= max && extra <= 300; extra += 9 { // dense around the usual small thresholds
		sizes = append(sizes, extra)
	}
	// one goroutine per family, sizes ascending; a family whose cases become slow is not escalated
	// further (its cost is C14's subject, and a pathological tree must not stall this check)
	parallelFor(len(c05LongFamilies), func(fi int) {
		f := c05LongFamilies[fi]
		sorted := append([]int{}, sizes...)
		sort.Ints(sorted)
		for _, n := range sorted {
			if (f == "or-later-rewrites" || f == "with-exceptions") && n > 4000 {
				continue // quadratic text rewriting: kept small
			}
			t0 := time.Now()
			for _, c := range []LongCase{{f, n, -1}, {f, n, 0}, {f, n, n}, {f, n, 2*n + 1}} {
				out := checkC05Long(c)
				cls := "intact"
				if c.Drop >= 0 {
					cls = "one-word-removed"
				}
				rec.Case(c.N >= 50, fmt.Sprintf("%s/%d/%d", c.Family, c.N, c.Drop), map[string]any{"family": c.Family, "n": c.N, "removed_word": c.Drop}, cls, "family-"+c.Family)
				if !out.OK {
					rec.Violate("c05-long", out.Key, out.Msg, c)
				}
			}
			if time.Since(t0) > 20*time.Second {
				rec.Note("family %s not escalated beyond n=%d: the four cases took %v", f, n, time.Since(t0).Round(time.Second))
				break
			}
		}
	})
}
