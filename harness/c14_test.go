package harness

import (
	"fmt"
	"math"
	"os"
	"runtime"
	"strings"
	"sync/atomic"
	"syscall"
	"testing"
	"time"

	"pgregory.net/rapid"
)

// CostCase: two sizes of one input family for one entry point (growth law), or one input (absolute).
type CostCase struct {
	Family string   `json:"family"`
	Entry  string   `json:"entry"` // satisfies | extract | validate
	N1     int      `json:"n1"`
	N2     int      `json:"n2"`
	Expr   string   `json:"expr,omitempty"` // absolute case: the literal input
	List   []string `json:"list,omitempty"`
	Schema *Schema  `json:"schema,omitempty"` // generated family
	Ns     []int    `json:"ns,omitempty"`     // the consecutive sizes whose growth was judged (replay measures exactly these)
}

func init() {
	registerReplay("c14-growth", func(c CostCase) Outcome { return checkC14Growth(c, nil) })
	registerReplay("c14-absolute", checkC14Absolute)
	registerReplay("c14-history", checkC14History)
}

const (
	c14NoiseFloor   = 4 << 20   // bytes: below this, growth is not judged
	c14MaxExponent  = 3.0       // local exponent of allocation over input length
	c14CPUFloor     = 500 * time.Millisecond
	c14MaxCPUExp    = 5.0       // local exponent of CPU time over input length
	c14AbsBytes     = 256 << 20 // a call on <= 512 bytes of arguments may not allocate more
	c14AbsCPU       = 10 * time.Second
	c14SmallInput   = 512
	c14StopBytes    = 1 << 30 // stop escalating a family beyond this much allocation per call
	c14WatchdogWall = 150 * time.Second
	c14HeapLimit    = 6 << 30
)

var c14IDs = []string{"MIT", "ISC", "Zlib", "0BSD", "X11", "curl", "NCSA", "Unlicense"}

func cyc(ids []string, i int) string { return ids[i%len(ids)] }

// buildFamily constructs the n-th member of an input family.
func buildFamily(family string, n int) (expr string, list []string) {
	tb := Tbl()
	list = []string{"MIT", "Apache-2.0"}
	join := func(parts []string, op string) string { return strings.Join(parts, " "+op+" ") }
	terms := func(k, off int) []string {
		out := make([]string, k)
		for i := range out {
			out[i] = cyc(c14IDs, i+off)
		}
		return out
	}
	switch family {
	case "and-chain":
		expr = join(terms(n, 0), "AND")
	case "or-chain":
		expr = join(terms(n, 0), "OR")
	case "repeat-term":
		parts := make([]string, n)
		for i := range parts {
			parts[i] = "MIT"
		}
		expr = join(parts, "AND")
	case "nesting":
		expr = strings.Repeat("(", n) + "MIT" + strings.Repeat(")", n)
	case "and-of-2ors", "and-of-3ors":
		k := 2
		if family == "and-of-3ors" {
			k = 3
		}
		parts := make([]string, n)
		for i := range parts {
			parts[i] = "(" + join(terms(k, i), "OR") + ")"
		}
		expr = join(parts, "AND")
	case "and-of-2ors-unsat": // nothing on the list matches: every alternative has to be refuted
		parts := make([]string, n)
		for i := range parts {
			parts[i] = "(" + join(terms(2, i+2), "OR") + ")"
		}
		expr = join(parts, "AND")
		list = []string{"Apache-2.0"}
	case "or-of-ands":
		parts := make([]string, n)
		for i := range parts {
			parts[i] = join(terms(2, i), "AND")
		}
		expr = join(parts, "OR")
	case "alternating-nest":
		expr = "MIT"
		for i := 0; i < n; i++ {
			op := "OR"
			if i%2 == 1 {
				op = "AND"
			}
			expr = "(" + expr + " " + op + " " + cyc(c14IDs, i+1) + ")"
		}
	case "alternating-nest-right":
		expr = "MIT"
		for i := 0; i < n; i++ {
			op := "OR"
			if i%2 == 1 {
				op = "AND"
			}
			expr = "(" + cyc(c14IDs, i+1) + " " + op + " " + expr + ")"
		}
	case "left-nested-and":
		expr = "MIT"
		for i := 0; i < n; i++ {
			expr = "(" + expr + " AND " + cyc(c14IDs, i+1) + ")"
		}
	case "left-nested-or":
		expr = "MIT"
		for i := 0; i < n; i++ {
			expr = "(" + expr + " OR " + cyc(c14IDs, i+1) + ")"
		}
	case "right-nested-or":
		expr = "MIT"
		for i := 0; i < n; i++ {
			expr = "(" + cyc(c14IDs, i+1) + " OR " + expr + ")"
		}
	case "balanced-or-and": // full binary tree, operators alternating by level; n = depth
		var gen func(d int, leaf *int) string
		gen = func(d int, leaf *int) string {
			if d == 0 {
				*leaf++
				return cyc(c14IDs, *leaf)
			}
			op := "AND"
			if d%2 == 0 {
				op = "OR"
			}
			return "(" + gen(d-1, leaf) + " " + op + " " + gen(d-1, leaf) + ")"
		}
		leaf := 0
		expr = gen(n, &leaf)
	case "n-by-n":
		// n terms, n entries, every term satisfied (so the AND chain is evaluated to its end and the
		// cost is a monotone function of n): term i is family id i, the list holds the same ids
		fam := tb.FamilyIDs
		parts := make([]string, n)
		list = make([]string, n)
		for i := 0; i < n; i++ {
			parts[i] = cyc(fam, i)
			list[i] = cyc(fam, n-1-i)
		}
		expr = join(parts, "AND")
	case "long-list":
		fam := tb.FamilyIDs
		list = make([]string, n)
		for i := range list {
			list[i] = cyc(fam, i*5)
		}
		expr = "GPL-2.0-only OR MIT"
	case "or-later-rewrites":
		parts := make([]string, n)
		for i := range parts {
			parts[i] = "Apache-2.0-or-later"
		}
		expr = join(parts, "AND")
	case "with-exceptions":
		parts := make([]string, n)
		for i := range parts {
			parts[i] = "GPL-2.0-or-later WITH " + cyc(tb.Exceptions, i)
		}
		expr = join(parts, "OR")
		list = []string{"GPL-3.0-only WITH " + tb.Exceptions[0]}
	case "unclosed-and-nest": // a syntax error at the bottom of n open groups
		expr = strings.Repeat("(MIT AND ", n) + "MIT"
	case "unclosed-nesting":
		expr = strings.Repeat("(", n) + "MIT"
	case "bad-id-deep":
		expr = strings.Repeat("(", n) + "MIT OR FOO" + strings.Repeat(")", n)
	case "missing-operand-deep":
		expr = strings.Repeat("(ISC OR ", n) + "MIT AND" + strings.Repeat(")", n)
	case "extra-close":
		expr = "MIT" + strings.Repeat(")", n)
	case "long-id":
		expr = strings.Repeat("a", n)
	case "long-ref":
		expr = "LicenseRef-" + strings.Repeat("a", n)
		list = []string{expr}
	case "spaces":
		expr = "MIT" + strings.Repeat(" ", n) + "AND" + strings.Repeat(" ", n) + "ISC"
	case "refs-or":
		parts := make([]string, n)
		for i := range parts {
			parts[i] = fmt.Sprintf("DocumentRef-d%d:LicenseRef-r%d", i%3, i)
		}
		expr = join(parts, "OR")
		list = []string{"LicenseRef-r1"}
	default:
		panic("unknown family " + family)
	}
	return expr, list
}

type familySpec struct {
	name    string
	start   int
	product bool // product-shaped: step +25%; otherwise x2
	maxQ    int
	maxT    int
}

var c14Families = []familySpec{
	{"and-chain", 4, false, 512, 32768},
	{"or-chain", 4, false, 512, 32768},
	{"repeat-term", 4, false, 512, 32768},
	{"nesting", 4, false, 2048, 131072},
	{"and-of-2ors", 2, true, 64, 4096},
	{"and-of-2ors-unsat", 2, true, 64, 4096},
	{"and-of-3ors", 2, true, 48, 2048},
	{"or-of-ands", 2, true, 128, 8192},
	{"alternating-nest", 2, true, 96, 8192},
	{"alternating-nest-right", 2, true, 96, 8192},
	{"left-nested-and", 4, false, 512, 16384},
	{"left-nested-or", 2, true, 96, 8192},
	{"right-nested-or", 2, true, 96, 8192},
	{"balanced-or-and", 2, true, 7, 12},
	{"n-by-n", 2, true, 24, 160},
	{"long-list", 4, false, 256, 8192},
	{"or-later-rewrites", 4, false, 128, 4096},
	{"with-exceptions", 4, false, 64, 2048},
	{"unclosed-and-nest", 2, true, 64, 4096},
	{"unclosed-nesting", 2, true, 96, 8192},
	{"bad-id-deep", 2, true, 96, 8192},
	{"missing-operand-deep", 2, true, 64, 4096},
	{"extra-close", 4, false, 512, 16384},
	{"long-id", 64, false, 65536, 1 << 20},
	{"long-ref", 64, false, 65536, 1 << 20},
	{"spaces", 64, false, 16384, 1 << 17},
	{"refs-or", 4, false, 256, 8192},
}

type costSample struct {
	L      int
	Alloc  uint64
	Malloc uint64
	CPU    time.Duration
}

func cpuNow() time.Duration {
	var ru syscall.Rusage
	syscall.Getrusage(syscall.RUSAGE_SELF, &ru)
	return time.Duration(ru.Utime.Nano() + ru.Stime.Nano())
}

var c14Current atomic.Value // description of the call being measured (for the watchdog)

// c14HeapAtCallStart: the heap in use when the call being measured began; the watchdog judges
// what the call itself added, not what the process happened to hold before it
var c14HeapAtCallStart atomic.Uint64

func call(entry, expr string, list []string) (panicked string) {
	switch entry {
	case "satisfies":
		return Satisfies(expr, list).Panic
	case "extract":
		return Extract(expr).Panic
	case "allowed": // the input as an allowed-list entry (a compound one is refused, but must be refused cheaply)
		return Satisfies("MIT", append([]string{"MIT", expr}, list...)).Panic
	default:
		return Validate(append([]string{expr}, list...)).Panic
	}
}

// measure runs one call alone and returns its allocation and CPU cost (minimum of up to 3 runs).
func measure(entry, expr string, list []string) (s costSample, panicked string) {
	s.L = len(expr)
	for _, l := range list {
		s.L += len(l)
	}
	best := costSample{Alloc: math.MaxUint64, Malloc: math.MaxUint64, CPU: math.MaxInt64}
	for rep := 0; rep < 3; rep++ {
		var m0, m1 runtime.MemStats // TotalAlloc / Mallocs are cumulative: no GC needed in between
		runtime.ReadMemStats(&m0)
		c14HeapAtCallStart.Store(m0.HeapAlloc)
		c0 := cpuNow()
		p := call(entry, expr, list)
		c1 := cpuNow()
		runtime.ReadMemStats(&m1)
		if p != "" {
			return s, p
		}
		if a := m1.TotalAlloc - m0.TotalAlloc; a < best.Alloc {
			best.Alloc = a
		}
		if a := m1.Mallocs - m0.Mallocs; a < best.Malloc {
			best.Malloc = a
		}
		if d := c1 - c0; d < best.CPU {
			best.CPU = d
		}
		if c1-c0 > time.Second {
			break
		}
	}
	s.Alloc, s.Malloc, s.CPU = best.Alloc, best.Malloc, best.CPU
	return s, ""
}

func exponent(t1, t2 float64, l1, l2 int) float64 {
	if t1 <= 0 || l2 <= l1 {
		return 0
	}
	return math.Log(t2/t1) / math.Log(float64(l2)/float64(l1))
}

// judge applies the growth law and the absolute bounds to two consecutive samples of a family.
func judge(c CostCase, s1, s2 costSample) Outcome {
	key := fmt.Sprintf("C14/growth/%s/%s", c.Family, c.Entry)
	if s2.L <= c14SmallInput {
		if s2.Alloc > c14AbsBytes {
			return fail(key, "%s on family %s n=%d: %d bytes of arguments made the call allocate %d MB", c.Entry, c.Family, c.N2, s2.L, s2.Alloc>>20)
		}
		if s2.CPU > c14AbsCPU {
			return fail(key, "%s on family %s n=%d: %d bytes of arguments kept the call busy for %v of CPU time", c.Entry, c.Family, c.N2, s2.L, s2.CPU)
		}
	}
	if s2.Alloc > c14NoiseFloor {
		if e := exponent(float64(s1.Alloc), float64(s2.Alloc), s1.L, s2.L); e > c14MaxExponent {
			return fail(key, "%s on family %s: allocation grows from %d KB (n=%d, %d bytes of input) to %d KB (n=%d, %d bytes): local exponent %.1f over input length, more than the low-degree polynomial bound %.0f",
				c.Entry, c.Family, s1.Alloc>>10, c.N1, s1.L, s2.Alloc>>10, c.N2, s2.L, e, c14MaxExponent)
		}
	}
	// CPU time is only judged against a sample at most 2/3 as long: over a short step a factor-2
	// measurement noise would already look like a high exponent
	if s2.CPU > c14CPUFloor && s1.CPU > 0 && 3*s1.L <= 2*s2.L {
		if e := exponent(float64(s1.CPU), float64(s2.CPU), s1.L, s2.L); e > c14MaxCPUExp {
			return fail(key, "%s on family %s: CPU time grows from %v (n=%d, %d bytes of input) to %v (n=%d, %d bytes): local exponent %.1f over input length, more than %.0f",
				c.Entry, c.Family, s1.CPU, c.N1, s1.L, s2.CPU, c.N2, s2.L, e, c14MaxCPUExp)
		}
	}
	return pass()
}

// growthJudge applies the growth law along one escalating series. Allocation and CPU of a family
// need not be smooth in n (a short-circuit may end an evaluation early for one n and late for the
// next), so a single steep step is not a verdict: a growth-law violation needs TWO consecutive
// steep steps — which an exponential family produces at once, at the cost of one more
// multiplication — while the absolute bounds for short inputs are judged immediately.
type growthJudge struct {
	c       CostCase
	ns      []int
	hist    []costSample
	pending *Outcome
}

func (g *growthJudge) add(n int, s2 costSample) Outcome {
	defer func() { g.ns, g.hist = append(g.ns, n), append(g.hist, s2) }()
	c := g.c
	c.N2 = n
	if len(g.hist) == 0 {
		return judge(c, s2, s2) // absolute bounds only
	}
	c.N1 = g.ns[len(g.hist)-1]
	out := judge(c, g.hist[len(g.hist)-1], s2)
	if out.OK {
		for i := len(g.hist) - 1; i >= 0; i-- { // CPU: against the latest sample at most 2/3 as long
			if 3*g.hist[i].L <= 2*s2.L {
				c.N1 = g.ns[i]
				out = judge(c, g.hist[i], s2)
				break
			}
		}
	}
	if out.OK {
		g.pending = nil
		return out
	}
	if strings.Contains(out.Msg, "bytes of arguments") { // absolute bound: a verdict on its own
		return out
	}
	if g.pending == nil {
		g.pending = &out
		return pass()
	}
	first := *g.pending
	out.Msg = first.Msg + "; and again at the next size: " + out.Msg
	return out
}

// checkC14Growth measures n1 and n2 of a family (used by replay; the sweep reuses its samples).
func checkC14Growth(c CostCase, prev *costSample) Outcome {
	if c.Schema != nil {
		return checkC14Schema(c)
	}
	ns := c.Ns
	if len(ns) == 0 {
		ns = []int{c.N1, c.N2}
	}
	g := &growthJudge{c: c}
	for _, n := range ns {
		if n <= 0 {
			continue
		}
		e, l := buildFamily(c.Family, n)
		s, p := measure(c.Entry, e, l)
		if p != "" {
			return fail("C14/panic/"+c.Family, "panic: %s", p)
		}
		if out := g.add(n, s); !out.OK {
			return out
		}
	}
	return pass()
}

func checkC14Absolute(c CostCase) Outcome {
	s, p := measure(c.Entry, c.Expr, c.List)
	key := "C14/absolute/" + c.Entry + "/" + c.Expr
	if p != "" {
		return fail("C14/panic/"+c.Expr, "panic: %s", p)
	}
	if s.L <= c14SmallInput && s.Alloc > c14AbsBytes {
		return fail(key, "%s(%q, %q): %d bytes of arguments made the call allocate %d MB", c.Entry, c.Expr, c.List, s.L, s.Alloc>>20)
	}
	if s.L <= c14SmallInput && s.CPU > c14AbsCPU {
		return fail(key, "%s(%q, %q): %d bytes of arguments kept the call busy for %v of CPU time", c.Entry, c.Expr, c.List, s.L, s.CPU)
	}
	return pass()
}

// startWatchdog ends the process with a recorded violation when one call does not return in time
// or the heap explodes; this is the only place where time is a verdict (DESIGN.md C14).
func startWatchdog(rec *Recorder, t *testing.T) (stop func()) {
	done := make(chan struct{})
	started := time.Now()
	var lastDesc any
	go func() {
		tick := time.NewTicker(200 * time.Millisecond)
		defer tick.Stop()
		for {
			select {
			case <-done:
				return
			case <-tick.C:
			}
			desc := c14Current.Load()
			if desc != lastDesc {
				lastDesc, started = desc, time.Now()
			}
			cc, _ := desc.(*CostCase)
			if cc == nil {
				continue
			}
			var m runtime.MemStats
			runtime.ReadMemStats(&m)
			over := time.Since(started) > c14WatchdogWall
			grown := uint64(0)
			if base := c14HeapAtCallStart.Load(); m.HeapAlloc > base {
				grown = m.HeapAlloc - base
			}
			if !over && grown < c14HeapLimit {
				continue
			}
			check := "c14-growth"
			if cc.Expr != "" {
				check = "c14-absolute"
			}
			what := fmt.Sprintf("the heap grew by %d MB during the call (HeapAlloc %d MB, NextGC %d MB, NumGC %d)", grown>>20, m.HeapAlloc>>20, m.NextGC>>20, m.NumGC)
			if over {
				what = fmt.Sprintf("the call did not return within %v", c14WatchdogWall)
			}
			rec.Violate(check, fmt.Sprintf("C14/watchdog/%s/%s/%d", cc.Family, cc.Entry, cc.N2),
				fmt.Sprintf("%s on family %q n=%d (%q...): %s", cc.Entry, cc.Family, cc.N2, firstN(cc.Expr, 80), what), cc)
			rec.Finish(t)
			os.Exit(0)
		}
	}()
	return func() { close(done) }
}

func max0(x int) int {
	if x < 0 {
		return 0
	}
	return x
}

func firstN(s string, n int) string {
	if len(s) > n {
		return s[:n]
	}
	return s
}

func TestC14_Families(t *testing.T) {
	cfg := Cfg()
	rec := NewRecorder("C14", "families", fmt.Sprintf("size-parameterised input families %v x entry points {Satisfies, ExtractLicenses, ValidateLicenses, Satisfies with the input as an allowed entry}; n stepped by +25%% (product-shaped) or x2 (chains) up to the tier's limit; each call measured alone (runtime.MemStats TotalAlloc/Mallocs deltas and process CPU time, minimum of 3); oracle: local exponent of allocation over input length <= %.0f once a call allocates > 4 MB, of CPU time <= %.0f once a call takes > 0.5 s, and <= 256 MB / 10 s CPU for <= 512 bytes of arguments; escalation of a family stops at its first breach; non-trivial = n >= 8; distinct by (family, n, entry point)", familyNames(), c14MaxExponent, c14MaxCPUExp))
	defer rec.Finish(t)
	stop := startWatchdog(rec, t)
	defer stop()
	// the cost of a call is a function of its own arguments: a few small probe calls are measured
	// before anything else has run in this process and again after all the long inputs
	type probe struct {
		entry, expr string
		list        []string
	}
	var longList []string
	for i := 0; i < 200; i++ {
		longList = append(longList, cyc(c14IDs, i))
	}
	probes := []probe{{"satisfies", "MIT OR Apache-2.0", longList}, {"extract", "(MIT AND ISC) OR (Zlib AND GPL-2.0+)", nil}, {"validate", "GPL-2.0-or-later WITH Classpath-exception-2.0", longList[:50]}}
	before := make([]costSample, len(probes))
	for i, p := range probes {
		before[i], _ = measure(p.entry, p.expr, p.list)
	}
	defer func() {
		for i, p := range probes {
			after, _ := measure(p.entry, p.expr, p.list)
			rec.Case(true, "probe/"+p.entry, map[string]any{"probe": p.entry, "alloc_first_in_process": before[i].Alloc, "alloc_after_long_inputs": after.Alloc}, "history-probe")
			if after.Alloc > 4*before[i].Alloc+(1<<20) {
				c := CostCase{Family: "history-probe", Entry: p.entry, Expr: p.expr, List: p.list}
				rec.Violate("c14-history", "C14/history-cost/"+p.entry,
					fmt.Sprintf("%s(%q, %d entries) allocated %d KB as one of the first calls of the process and %d KB after long inputs had been handled: the cost of a call must depend on its own arguments only", p.entry, p.expr, len(p.list), before[i].Alloc>>10, after.Alloc>>10), c)
			}
		}
	}()
	for _, f := range c14Families {
		for _, entry := range []string{"satisfies", "extract", "validate", "allowed"} {
			max := f.maxQ
			if cfg.Thorough() {
				max = f.maxT
			}
			g := &growthJudge{c: CostCase{Family: f.name, Entry: entry}}
			prevN := 0
			for n := f.start; n <= max; {
				c := CostCase{Family: f.name, Entry: entry, N1: prevN, N2: n}
				c14Current.Store(&c)
				expr, list := buildFamily(f.name, n)
				s, p := measure(entry, expr, list)
				c14Current.Store((*CostCase)(nil))
				if p != "" {
					rec.Violate("c14-growth", "C14/panic/"+f.name, "panic: "+p, c)
					break
				}
				rec.Case(n >= 8, fmt.Sprintf("%s/%d/%s", f.name, n, entry),
					map[string]any{"family": f.name, "n": n, "entry": entry, "input_bytes": s.L, "alloc_bytes": s.Alloc, "mallocs": s.Malloc, "cpu_ms": s.CPU.Milliseconds(), "input_head": firstN(expr, 70)}, "family-"+f.name)
				if out := g.add(n, s); !out.OK {
					c.Ns = append([]int{}, g.ns[max0(len(g.ns)-8):]...) // the sizes the verdict rests on (replay re-measures them)
					rec.Violate("c14-growth", out.Key, out.Msg, c)
					break
				}
				if s.Alloc > c14StopBytes || s.CPU > 20*time.Second {
					rec.Note("%s/%s: escalation stopped at n=%d (alloc %d MB, cpu %v)", f.name, entry, n, s.Alloc>>20, s.CPU)
					break
				}
				prevN = n
				switch {
				case g.pending != nil: // a steep step awaits confirmation: take a small one
					n += 1 + n/12
				case f.product:
					step := n / 4
					if step < 1 {
						step = 1
					}
					n += step
				case f.start >= 64: // lengths of a single token: doubling is fine
					n *= 2
				case n < 16: // chains and nests: dense while an exponential would still be affordable
					n += 2
				case n < 32:
					n += 4
				case n < 64:
					n += 8
				default:
					n *= 2
				}
			}
		}
	}
}

func familyNames() []string {
	var out []string
	for _, f := range c14Families {
		out = append(out, f.name)
	}
	return out
}

// TestC14_RandomTrees: random trees whose text stays within 512 bytes must be cheap in absolute terms.
func TestC14_RandomTrees(t *testing.T) {
	rec := NewRecorder("C14", "random-trees", "rapid-generated expression trees (depth <= 7, <= 40 leaves, short ids so that the text stays <= 512 bytes) x generated allowed lists, through Satisfies and ExtractLicenses; oracle: a call on <= 512 bytes of arguments allocates <= 256 MB and uses <= 10 s CPU; non-trivial = DNF of the tree has >= 64 alternatives; distinct by expression")
	defer rec.Finish(t)
	stop := startWatchdog(rec, t)
	defer stop()
	rec.Rapid(t, func(rt *rapid.T) {
		nTerms := rapid.IntRange(2, 8).Draw(rt, "nTerms")
		var tree *Node
		if rapid.Bool().Draw(rt, "blowup") {
			tree = drawBlowupTree(rt, nTerms)
		} else {
			tree = DrawTree(rt, nTerms, 7, 40)
		}
		expr := tree.Render(c14IDs[:nTerms], &Spacer{tape: []int{0}})
		if len(expr) > 500 {
			rec.Exclude("text longer than 500 bytes")
			return
		}
		list := []string{cyc(c14IDs, rapid.IntRange(0, 7).Draw(rt, "allowed"))}
		for _, entry := range []string{"satisfies", "extract", "allowed"} {
			c := CostCase{Family: "random-tree", Entry: entry, Expr: expr, List: list}
			c14Current.Store(&c)
			out := checkC14Absolute(c)
			c14Current.Store((*CostCase)(nil))
			if !out.OK {
				rec.Fail(rt, "c14-absolute", out.Key, out.Msg, c)
			}
		}
		alts := tree.Alternatives()
		cls := "alts<64"
		switch {
		case alts >= 1<<20:
			cls = "alts>=2^20"
		case alts >= 4096:
			cls = "alts>=4096"
		case alts >= 64:
			cls = "alts>=64"
		}
		rec.Case(alts >= 64, expr, map[string]any{"expr": expr, "dnf_alternatives": alts}, cls)
	})
}

// drawBlowupTree draws trees whose disjunctive normal form is large relative to their text:
// conjunctions of disjunctions, nested a generated number of times.
func drawBlowupTree(rt *rapid.T, nTerms int) *Node {
	var group func(depth int, label string) *Node
	group = func(depth int, label string) *Node {
		or := &Node{Op: "OR"}
		for i, k := 0, rapid.IntRange(2, 3).Draw(rt, label+"k"); i < k; i++ {
			if depth > 0 && rapid.IntRange(0, 3).Draw(rt, fmt.Sprintf("%sn%d", label, i)) == 0 {
				and := &Node{Op: "AND"}
				for j, m := 0, rapid.IntRange(2, 3).Draw(rt, fmt.Sprintf("%sm%d", label, i)); j < m; j++ {
					and.Kids = append(and.Kids, group(depth-1, fmt.Sprintf("%s%d.%d.", label, i, j)))
				}
				or.Kids = append(or.Kids, and)
			} else {
				or.Kids = append(or.Kids, leafNode(rapid.IntRange(0, nTerms-1).Draw(rt, fmt.Sprintf("%sl%d", label, i))))
			}
		}
		return or
	}
	top := &Node{Op: "AND"}
	for i, m := 0, rapid.IntRange(3, 24).Draw(rt, "groups"); i < m; i++ {
		top.Kids = append(top.Kids, group(rapid.IntRange(0, 2).Draw(rt, fmt.Sprintf("gd%d", i)), fmt.Sprintf("g%d.", i)))
	}
	return top
}

// ---- generated families: unit op unit op ... op tail

type Schema struct {
	Unit    string   `json:"unit"`    // a small expression with %d placeholders for ids, e.g. "%s AND %s"
	UnitIDs int      `json:"unit_ids"`
	Op      string   `json:"op"`
	Tail    string   `json:"tail"`    // "" or a small expression appended after the last op
	Nest    string   `json:"nest"`    // flat | left | right
	Paren   bool     `json:"paren"`   // parenthesise every unit
	Vary    bool     `json:"vary"`    // cycle ids per repetition (otherwise every unit is identical)
	List    []string `json:"list"`
}

func (sc *Schema) build(n int) string {
	unit := func(i int) string {
		args := make([]any, sc.UnitIDs)
		for j := range args {
			k := j
			if sc.Vary {
				k = i*sc.UnitIDs + j
			}
			args[j] = cyc(c14IDs, k)
		}
		u := fmt.Sprintf(sc.Unit, args...)
		if sc.Paren {
			u = "(" + u + ")"
		}
		return u
	}
	var expr string
	switch sc.Nest {
	case "left":
		expr = unit(0)
		for i := 1; i < n; i++ {
			expr = "(" + expr + " " + sc.Op + " " + unit(i) + ")"
		}
	case "right":
		expr = unit(n - 1)
		for i := n - 2; i >= 0; i-- {
			expr = "(" + unit(i) + " " + sc.Op + " " + expr + ")"
		}
	default:
		parts := make([]string, n)
		for i := range parts {
			parts[i] = unit(i)
		}
		expr = strings.Join(parts, " "+sc.Op+" ")
	}
	if sc.Tail != "" {
		expr += " " + sc.Op + " " + sc.Tail
	}
	return expr
}

// drawUnit draws a small expression template over k ids.
func drawUnit(rt *rapid.T, label string, maxIDs int) (string, int) {
	k := rapid.IntRange(1, maxIDs).Draw(rt, label+"k")
	parts := make([]string, k)
	for i := range parts {
		parts[i] = "%s"
		if rapid.IntRange(0, 5).Draw(rt, fmt.Sprintf("%splus%d", label, i)) == 0 {
			parts[i] = "%s+"
		}
	}
	expr := parts[0]
	for i := 1; i < k; i++ {
		op := rapid.SampledFrom([]string{"AND", "OR"}).Draw(rt, fmt.Sprintf("%sop%d", label, i))
		if rapid.IntRange(0, 3).Draw(rt, fmt.Sprintf("%sgrp%d", label, i)) == 0 {
			expr = "(" + expr + ") " + op + " " + parts[i]
		} else {
			expr = expr + " " + op + " " + parts[i]
		}
	}
	return expr, k
}

// schemaSizes is the escalation schedule of a generated family: dense, so that an exponential
// family is stopped within a few seconds of CPU time.
func schemaSizes(limit int) []int {
	var out []int
	for n := 2; n <= limit; {
		out = append(out, n)
		switch {
		case n < 12:
			n += 2
		default:
			n += 1 + n/12
		}
	}
	return out
}

func checkC14Schema(c CostCase) Outcome {
	cc := c
	cc.Family = "generated " + c.Schema.describe()
	g := &growthJudge{c: cc}
	for _, n := range schemaSizes(c.N2) {
		expr := c.Schema.build(n)
		s, p := measure(c.Entry, expr, c.Schema.List)
		if p != "" {
			return fail("C14/panic/"+expr, "panic: %s", p)
		}
		if out := g.add(n, s); !out.OK {
			out.Key = fmt.Sprintf("C14/growth/generated/%s/%s", c.Entry, c.Schema.describe())
			return out
		}
		if s.Alloc > 256<<20 || s.CPU > 3*time.Second {
			break
		}
	}
	return pass()
}

func (sc *Schema) describe() string {
	p := ""
	if sc.Paren {
		p = "()"
	}
	v := "same"
	if sc.Vary {
		v = "varying"
	}
	return fmt.Sprintf("[%s]%s %s ... %s tail[%s] %s ids, list %v", sc.Unit, p, sc.Op, sc.Nest, sc.Tail, v, sc.List)
}

func TestC14_GeneratedFamilies(t *testing.T) {
	cfg := Cfg()
	limit := cfg.Pick(80, 200)
	rec := NewRecorder("C14", "generated-families", fmt.Sprintf("rapid-generated input families 'unit op unit op ... op tail' (unit and tail: generated small expressions of 1-3 ids with generated operators, parentheses and '+'; joined flat without parentheses, or left- / right-nested; identical or varying ids; generated allowed list), each escalated over n = 2..%d repetitions on a dense schedule through Satisfies and ExtractLicenses; same growth-law oracle as the fixed families (CPU judged against a sample at most 2/3 as long); non-trivial = the family reached n >= 16; distinct by schema", limit))
	defer rec.Finish(t)
	stop := startWatchdog(rec, t)
	defer stop()
	rec.Rapid(t, func(rt *rapid.T) {
		sc := &Schema{Op: rapid.SampledFrom([]string{"AND", "OR"}).Draw(rt, "op"), Nest: rapid.SampledFrom([]string{"flat", "flat", "left", "right"}).Draw(rt, "nest"),
			Paren: rapid.Bool().Draw(rt, "paren"), Vary: rapid.Bool().Draw(rt, "vary")}
		sc.Unit, sc.UnitIDs = drawUnit(rt, "u", 3)
		if rapid.Bool().Draw(rt, "hasTail") {
			tpl, k := drawUnit(rt, "t", 2)
			args := make([]any, k)
			for i := range args {
				args[i] = cyc(c14IDs, 5+i)
			}
			sc.Tail = fmt.Sprintf(tpl, args...)
		}
		for i, n := 0, rapid.IntRange(1, 3).Draw(rt, "listLen"); i < n; i++ {
			sc.List = append(sc.List, rapid.SampledFrom(append(append([]string{}, c14IDs...), "Apache-2.0", "GPL-2.0-only")).Draw(rt, fmt.Sprintf("a%d", i)))
		}
		for _, entry := range []string{"satisfies", "extract", "allowed"} {
			c := CostCase{Family: "generated", Entry: entry, N2: limit, Schema: sc}
			c14Current.Store(&c)
			out := checkC14Schema(c)
			c14Current.Store((*CostCase)(nil))
			if !out.OK {
				rec.Fail(rt, "c14-growth", out.Key, out.Msg, c)
			}
		}
		rec.Case(true, sc.describe(), map[string]any{"schema": sc.describe(), "n=6": sc.build(6)}, "nest-"+sc.Nest, "op-"+sc.Op)
	})
}

// checkC14History (replay): the probe call is measured first, then a long input is handled, then
// the probe again.
func checkC14History(c CostCase) Outcome {
	before, _ := measure(c.Entry, c.Expr, c.List)
	for _, f := range []string{"and-chain", "or-chain", "nesting", "long-list", "or-later-rewrites"} {
		e, l := buildFamily(f, 4096)
		call("satisfies", e, l)
		call("extract", e, l)
	}
	after, _ := measure(c.Entry, c.Expr, c.List)
	if after.Alloc > 4*before.Alloc+(1<<20) {
		return fail("C14/history-cost/"+c.Entry, "%s(%q, %d entries) allocated %d KB first and %d KB after long inputs had been handled", c.Entry, c.Expr, len(c.List), before.Alloc>>10, after.Alloc>>10)
	}
	return pass()
}
