package harness

import (
	"fmt"
	"strings"
	"testing"

	"pgregory.net/rapid"
)

// respell rebuilds a license term with other case variants (same base, form, exception).
func (t *Tables) respell(term Term, cv, ecv uint32) Term {
	if term.Kind != "lic" {
		return term
	}
	return t.MakeLicTerm(term.Base, term.Form, cv, term.Exc, ecv, " ", " ")
}

// TestC09_Trees: the same generated tree and allowed list, once in list casing and once with
// every identifier occurrence re-cased.
func TestC09_Trees(t *testing.T) {
	rec := NewRecorder("C09", "trees", "rapid-generated expression trees and allowed lists spelled twice: list casing vs every license/exception id re-cased (lower/upper/random mix per pool entry and per allowed entry); oracle: Satisfies (all four combinations) and ExtractLicenses output identical; non-trivial = at least one id actually changes and the tree has >= 2 leaves; distinct by (expr2, allowed2)")
	defer rec.Finish(t)
	tb := Tbl()
	rec.Rapid(t, func(rt *rapid.T) {
		excPool := tb.DrawExcPool(rt)
		pool := tb.DrawPool(rt, excPool)
		tree := DrawTree(rt, len(pool), 5, 12)
		allowed := tb.DrawAllowed(rt, pool, excPool, 6)
		var c TwoSpellingCase
		c.Tree = tree
		for i, p := range pool {
			c.Pool1 = append(c.Pool1, tb.respell(p, 0, 0).Text)
			c.Pool2 = append(c.Pool2, tb.respell(p, 1+drawCase(rt, fmt.Sprintf("pc%d", i)), 1+drawCase(rt, fmt.Sprintf("pe%d", i))).Text)
		}
		for i, a := range allowed {
			c.Allowed1 = append(c.Allowed1, tb.respell(a, 0, 0).Text)
			c.Allowed2 = append(c.Allowed2, tb.respell(a, 1+drawCase(rt, fmt.Sprintf("ac%d", i)), 1+drawCase(rt, fmt.Sprintf("ae%d", i))).Text)
		}
		tape := DrawSpacer(rt).tape
		c.Expr1 = tree.Render(c.Pool1, &Spacer{tape: tape})
		c.Expr2 = tree.Render(c.Pool2, &Spacer{tape: tape})
		out := checkC09Tree(c)
		cls := "verdict-false"
		if Satisfies(c.Expr1, c.Allowed1).OK {
			cls = "verdict-true"
		}
		rec.Case(c.Expr1 != c.Expr2 && tree.Leaves() >= 2, c.Expr2+" | "+strings.Join(c.Allowed2, ","), map[string]any{"expr1": c.Expr1, "expr2": c.Expr2, "allowed1": c.Allowed1, "allowed2": c.Allowed2}, cls)
		if !out.OK {
			rec.Fail(rt, "c09-tree", out.Key, out.Msg, c)
		}
	})
}
