package harness

import (
	"encoding/json"
	"fmt"
	"io"
	"os"
	"strings"
	"sync"
	"syscall"
	"testing"

	"github.com/github/go-spdx/v2/spdxexp"
	"pgregory.net/rapid"
)

// A history is generated as a value (calls + steps) and executed by a plain function, so the
// same code runs under rapid (where the whole history shrinks as one value) and in --replay.

type PCall struct {
	Fn   string    `json:"fn"` // satisfies | validate | extract
	Expr StrCase   `json:"expr"`
	List []StrCase `json:"list"`
	Nil  bool      `json:"nil,omitempty"`
}

type PStep struct {
	Kind   string  `json:"kind"`             // call | repeat | burst
	Call   int     `json:"call,omitempty"`   // index into Calls (call, repeat)
	Burst  [][]int `json:"burst,omitempty"`  // per goroutine: indexes of earlier calls
	Rounds int     `json:"rounds,omitempty"` // each goroutine repeats its batch this many times (default 1)
}

type History struct {
	Calls []PCall `json:"calls"`
	Steps []PStep `json:"steps"`
}

func init() { registerReplay("c13-history", checkC13) }

const nSentinels = 3

type liveCall struct {
	fn       string
	expr     string
	backing  []string // list entries followed by sentinels
	n        int
	isNil    bool
	pristine []string
	first    string // first observed result (JSON)
	seen     bool
}

func (lc *liveCall) list() []string {
	if lc.isNil {
		return nil
	}
	return lc.backing[:lc.n]
}

// exec runs the call against the real library and renders the result canonically (a panic becomes
// a result of its own: it is C03's business, but here it must not take the history down). Returned slices are scribbled
// over afterwards: a library that hands out shared storage would see its next answer corrupted.
func (lc *liveCall) exec() (res string) {
	defer func() {
		if p := recover(); p != nil {
			res = fmt.Sprintf("PANIC: %v", p) // reported as a result that differs from every normal one
		}
	}()
	switch lc.fn {
	case "satisfies":
		ok, err := spdxexp.Satisfies(lc.expr, lc.list())
		return fmt.Sprintf("satisfies:%v:%v", ok, errText(err))
	case "extract":
		l, err := spdxexp.ExtractLicenses(lc.expr)
		s, _ := json.Marshal(l)
		for i := range l {
			l[i] = "SCRIBBLED-BY-CALLER"
		}
		return fmt.Sprintf("extract:%s:%v", s, errText(err))
	default:
		v, inv := spdxexp.ValidateLicenses(lc.list())
		s, _ := json.Marshal(inv)
		for i := range inv {
			inv[i] = "SCRIBBLED-BY-CALLER"
		}
		return fmt.Sprintf("validate:%v:%s", v, s)
	}
}

func errText(err error) string {
	if err == nil {
		return "<nil>"
	}
	return "error(" + err.Error() + ")"
}

func (c PCall) describe() string {
	var l []string
	for _, e := range c.List {
		l = append(l, e.S())
	}
	switch c.Fn {
	case "satisfies":
		return fmt.Sprintf("Satisfies(%q, %q)", c.Expr.S(), l)
	case "extract":
		return fmt.Sprintf("ExtractLicenses(%q)", c.Expr.S())
	}
	return fmt.Sprintf("ValidateLicenses(%q)", l)
}

// captureFDs redirects file descriptors 1 and 2 to a temporary file until restore is called.
func captureFDs() (restore func() string, err error) {
	f, err := os.CreateTemp("", "verif-c13-out-")
	if err != nil {
		return nil, err
	}
	os.Remove(f.Name()) // unlinked at once and read back through the descriptor: a killed run leaves nothing under /tmp
	os.Stdout.Sync()
	os.Stderr.Sync()
	save1, err1 := syscall.Dup(1)
	save2, err2 := syscall.Dup(2)
	if err1 != nil || err2 != nil {
		return nil, fmt.Errorf("dup: %v %v", err1, err2)
	}
	syscall.Dup2(int(f.Fd()), 1)
	syscall.Dup2(int(f.Fd()), 2)
	return func() string {
		syscall.Dup2(save1, 1)
		syscall.Dup2(save2, 2)
		syscall.Close(save1)
		syscall.Close(save2)
		f.Seek(0, io.SeekStart)
		data, _ := io.ReadAll(f)
		f.Close()
		return string(data)
	}, nil
}

// checkC13 executes a history and checks purity: arguments untouched (incl. spare capacity),
// nothing written to fd 1/2, every result identical to the first result of the same call —
// sequentially, after other calls, and inside concurrent bursts sharing the argument slices.
func checkC13(h History) Outcome {
	live := make([]*liveCall, len(h.Calls))
	for i, c := range h.Calls {
		lc := &liveCall{fn: c.Fn, expr: c.Expr.S(), n: len(c.List), isNil: c.Nil && len(c.List) == 0}
		for _, e := range c.List {
			lc.backing = append(lc.backing, e.S())
		}
		for s := 0; s < nSentinels; s++ {
			lc.backing = append(lc.backing, fmt.Sprintf("SENTINEL-%d", s))
		}
		lc.pristine = append([]string{}, lc.backing...)
		live[i] = lc
	}
	restore, err := captureFDs()
	if err != nil {
		return fail("C13/harness", "cannot capture stdout/stderr: %v", err)
	}
	var mu sync.Mutex
	var problem *Outcome
	report := func(o Outcome) {
		mu.Lock()
		if problem == nil {
			problem = &o
		}
		mu.Unlock()
	}
	run := func(i int, ctx string) {
		lc := live[i]
		got := lc.exec()
		mu.Lock()
		if !lc.seen {
			lc.seen, lc.first = true, got
			mu.Unlock()
			if strings.HasPrefix(got, "PANIC: ") {
				report(fail("C13/panic/"+h.Calls[i].describe(), "%s panicked %s: %s", h.Calls[i].describe(), ctx, got))
			}
			return
		}
		first := lc.first
		mu.Unlock()
		if strings.HasPrefix(got, "PANIC: ") {
			report(fail("C13/panic/"+h.Calls[i].describe(), "%s panicked %s: %s", h.Calls[i].describe(), ctx, got))
			return
		}
		if got != first {
			report(fail("C13/result/"+h.Calls[i].describe(), "%s returned %s the first time and %s %s", h.Calls[i].describe(), first, got, ctx))
		}
	}
	for si, st := range h.Steps {
		switch st.Kind {
		case "call":
			run(st.Call, fmt.Sprintf("at step %d", si))
		case "repeat":
			run(st.Call, fmt.Sprintf("when repeated at step %d after other calls", si))
		case "burst":
			var wg sync.WaitGroup
			for g, batch := range st.Burst {
				wg.Add(1)
				go func(g int, batch []int) {
					defer wg.Done()
					rounds := st.Rounds
					if rounds < 1 {
						rounds = 1
					}
					for r := 0; r < rounds; r++ {
						for _, ci := range batch {
							run(ci, fmt.Sprintf("inside a burst of %d goroutines at step %d (round %d)", len(st.Burst), si, r))
						}
						mu.Lock()
						stop := problem != nil
						mu.Unlock()
						if stop {
							return
						}
					}
				}(g, batch)
			}
			wg.Wait()
		}
	}
	// final pass in reverse order: the answers must not depend on what came before
	for i := len(live) - 1; i >= 0; i-- {
		if live[i].seen {
			run(i, "in the final reverse-order pass")
		}
	}
	out := restore()
	if out != "" {
		if strings.Contains(out, "DATA RACE") {
			return fail("C13/race/"+firstRaceFrame(out), "the race detector reported a data race during the history:\n%s", firstN(out, 6000))
		}
		return fail("C13/output/"+firstN(strings.TrimSpace(out), 60), "the library wrote %d bytes to standard output / standard error: %q", len(out), firstN(out, 400))
	}
	for i, lc := range live {
		for j := range lc.backing {
			if lc.backing[j] != lc.pristine[j] {
				where := "element"
				if j >= lc.n {
					where = "spare capacity beyond the slice length"
				}
				return fail("C13/mutation/"+h.Calls[i].describe(), "%s modified the caller's slice (%s %d: %q -> %q)", h.Calls[i].describe(), where, j, lc.pristine[j], lc.backing[j])
			}
		}
	}
	if problem != nil {
		return *problem
	}
	if d := Tbl().FreshTablesDiffer(); d != "" {
		return fail("C13/table-aliasing", "what the library returns depends on what a caller did with a value it was handed earlier: %s", d)
	}
	return pass()
}

func firstRaceFrame(report string) string {
	for _, line := range strings.Split(report, "\n") {
		line = strings.TrimSpace(line)
		if strings.Contains(line, "spdxexp") && strings.Contains(line, "(") {
			return firstN(line, 100)
		}
	}
	return "unknown-frame"
}

func drawHistory(rt *rapid.T, maxSteps, maxGoroutines int) History {
	var h History
	pool := make([]Entry, rapid.IntRange(2, 8).Draw(rt, "poolSize")) // few strings, so that equal arguments recur
	for i := range pool {
		pool[i] = drawEntry(rt, fmt.Sprintf("s%d", i), rapid.IntRange(0, 2).Draw(rt, fmt.Sprintf("s%dSingle", i)) == 0)
	}
	nSteps := rapid.IntRange(3, maxSteps).Draw(rt, "nSteps")
	for s := 0; s < nSteps; s++ {
		label := fmt.Sprintf("st%d", s)
		kind := rapid.IntRange(0, 9).Draw(rt, label+"Kind")
		switch {
		case kind < 5 || len(h.Calls) == 0:
			c := PCall{Fn: rapid.SampledFrom([]string{"satisfies", "satisfies", "extract", "extract", "validate"}).Draw(rt, label+"Fn")}
			c.Expr = rapid.SampledFrom(pool).Draw(rt, label+"Expr").S
			if c.Fn != "extract" {
				n := rapid.IntRange(0, 5).Draw(rt, label+"N")
				if rapid.IntRange(0, 5).Draw(rt, label+"Long") == 0 {
					// long lists drawn from the small pool: many exact repeats, the shape a list-compacting
					// or index-building fast path (thresholds of 8 / 16 / 32 / 64 entries) engages on
					n = rapid.IntRange(6, 100).Draw(rt, label+"LongN")
				}
				for i := 0; i < n; i++ {
					c.List = append(c.List, rapid.SampledFrom(pool).Draw(rt, fmt.Sprintf("%sL%d", label, i)).S)
				}
				c.Nil = n == 0 && rapid.Bool().Draw(rt, label+"Nil")
			}
			h.Calls = append(h.Calls, c)
			h.Steps = append(h.Steps, PStep{Kind: "call", Call: len(h.Calls) - 1})
		case kind < 7:
			h.Steps = append(h.Steps, PStep{Kind: "repeat", Call: rapid.IntRange(0, len(h.Calls)-1).Draw(rt, label+"Rep")})
		default:
			g := rapid.IntRange(2, maxGoroutines).Draw(rt, label+"G")
			st := PStep{Kind: "burst"}
			for i := 0; i < g; i++ {
				batch := rapid.SliceOfN(rapid.IntRange(0, len(h.Calls)-1), 1, 6).Draw(rt, fmt.Sprintf("%sB%d", label, i))
				st.Burst = append(st.Burst, batch)
			}
			h.Steps = append(h.Steps, st)
		}
	}
	return h
}

func TestC13_Histories(t *testing.T) {
	cfg := Cfg()
	maxG := cfg.Pick(16, 64)
	rec := NewRecorder("C13", "histories", fmt.Sprintf("rapid-generated call histories (3-40 steps over a pool of 2-8 strings drawn from the C04 mix: valid, invalid, compound, raw): new calls of Satisfies / ExtractLicenses / ValidateLicenses (lists of 0-5 entries, one call in six with 6-100 entries and hence many exact repeats), repeats of earlier calls, bursts of 2-%d goroutines each running a batch of earlier calls on the very same argument slices, then a final reverse-order pass; built with -race; oracle: arguments (incl. sentinels in the spare capacity) unchanged, zero bytes on file descriptors 1 and 2, every result identical to the first result of the same call, race detector silent; returned slices are scribbled over by the harness after each call; non-trivial = history has a burst and a repeated call with a multi-element result; distinct by history", maxG))
	defer rec.Finish(t)
	journal := "journal.json"
	rec.Rapid(t, func(rt *rapid.T) {
		h := drawHistory(rt, 40, maxG)
		if cfg.Out != "" {
			// a fatal error (concurrent map writes) kills the process: leave the history behind
			raw, _ := json.Marshal(h)
			j, _ := json.Marshal(Violation{Check: "c13-history", Key: "C13/crash/" + fmt.Sprintf("%x", hash64(string(raw))), Msg: "the process died while executing this history", Case: raw})
			os.WriteFile(journal, j, 0o644)
		}
		out := checkC13(h)
		bursts, goroutines, repeats, multi := 0, 0, 0, false
		for _, st := range h.Steps {
			switch st.Kind {
			case "burst":
				bursts++
				goroutines += len(st.Burst)
			case "repeat":
				repeats++
			}
		}
		for _, c := range h.Calls {
			if c.Fn != "satisfies" && (len(c.List) > 1 || strings.Contains(c.Expr.S(), " ")) {
				multi = true
			}
		}
		classes := []string{}
		if bursts > 0 {
			classes = append(classes, "has-burst")
		}
		if repeats > 0 {
			classes = append(classes, "has-repeat")
		}
		raw, _ := json.Marshal(h)
		var sample []string
		for _, st := range h.Steps {
			switch st.Kind {
			case "burst":
				sample = append(sample, fmt.Sprintf("burst%v", st.Burst))
			default:
				sample = append(sample, st.Kind+": "+h.Calls[st.Call].describe())
			}
		}
		rec.Case(bursts > 0 && repeats > 0 && multi, string(raw), sample, classes...)
		rec.Tally("goroutines", int64(goroutines))
		rec.Tally("bursts", int64(bursts))
		if !out.OK {
			rec.Fail(rt, "c13-history", out.Key, out.Msg, h)
		}
	})
	os.Remove(journal)
}

// TestC13_ColdStart: the very first library calls of a fresh process are made concurrently.
// (Lazily initialised package state is only cold once per process, so this unit is run as many
// short processes; the replay of a history is a fresh process as well.)
func TestC13_ColdStart(t *testing.T) {
	cfg := Cfg()
	rec := NewRecorder("C13", "cold-start", "one history per fresh process whose FIRST step is a burst of 8-32 goroutines making the process's first library calls (active, deprecated and exception ids, -only/-or-later forms, references, unknown ids, invalid text), followed by sequential repeats and the reverse pass; built with -race; same oracle as the histories check; non-trivial = every history; distinct by history")
	defer rec.Finish(t)
	rec.Rapid(t, func(rt *rapid.T) {
		tb := Tbl() // reads spdxlicenses tables only; no spdxexp call happens before the burst
		strs := []string{"MIT", "mit AND Apache-2.0", "GPL-2.0", "GPL-2.0+", "eCos-2.0", "Apache-2.0-or-later OR ISC-only",
			"GPL-2.0-only WITH Classpath-exception-2.0", "LicenseRef-a OR DocumentRef-d:LicenseRef-b", "NOT-A-LICENSE", "MIT AND (", "Bison-exception-2.2", ""}
		for i := 0; i < 6; i++ {
			strs = append(strs, tb.DrawLicSpelling(rt, fmt.Sprintf("x%d", i)))
		}
		var h History
		for i, s := range strs {
			h.Calls = append(h.Calls, PCall{Fn: "extract", Expr: mkStr(s)})
			h.Calls = append(h.Calls, PCall{Fn: "satisfies", Expr: mkStr(s), List: []StrCase{mkStr(strs[(i+1)%len(strs)]), mkStr("GPL-3.0-or-later")}})
			h.Calls = append(h.Calls, PCall{Fn: "validate", List: []StrCase{mkStr(s), mkStr(strs[(i+3)%len(strs)])}})
		}
		g := rapid.IntRange(8, 32).Draw(rt, "goroutines")
		st := PStep{Kind: "burst"}
		for i := 0; i < g; i++ {
			st.Burst = append(st.Burst, rapid.SliceOfN(rapid.IntRange(0, len(h.Calls)-1), 2, 8).Draw(rt, fmt.Sprintf("b%d", i)))
		}
		h.Steps = append(h.Steps, st)
		for i := 0; i < len(h.Calls); i += 2 {
			h.Steps = append(h.Steps, PStep{Kind: "repeat", Call: i})
		}
		if cfg.Out != "" {
			raw, _ := json.Marshal(h)
			j, _ := json.Marshal(Violation{Check: "c13-history", Key: "C13/crash/" + fmt.Sprintf("%x", hash64(string(raw))), Msg: "the process died while executing this history", Case: raw})
			os.WriteFile("journal.json", j, 0o644)
		}
		out := checkC13(h)
		raw, _ := json.Marshal(h)
		rec.Case(true, string(raw), fmt.Sprintf("cold burst of %d goroutines over %d calls, then %d sequential repeats", g, len(h.Calls), len(h.Steps)-1), "cold-burst")
		rec.Tally("goroutines", int64(g))
		if !out.OK {
			rec.Fail(rt, "c13-history", out.Key, out.Msg, h)
		}
	})
	os.Remove("journal.json")
}

// TestC13_Hammer: many goroutines, each working on its own compound expression for many rounds,
// compared with the sequential answers: wrong results that need a narrow interleaving (and that
// the race detector cannot see when the shared state is properly locked but wrongly used).
func TestC13_Hammer(t *testing.T) {
	cfg := Cfg()
	rounds := cfg.Pick(150, 400)
	rec := NewRecorder("C13", "hammer", fmt.Sprintf("4-16 goroutines, each owning a different rapid-generated compound expression and allowed list, alternate ExtractLicenses / Satisfies / ValidateLicenses on it for %d rounds after the sequential answers were recorded; built with -race; same oracle as the histories check; non-trivial = every history; distinct by history", rounds))
	defer rec.Finish(t)
	tb := Tbl()
	rec.Rapid(t, func(rt *rapid.T) {
		g := rapid.IntRange(4, 16).Draw(rt, "goroutines")
		var h History
		st := PStep{Kind: "burst", Rounds: rounds}
		for i := 0; i < g; i++ {
			excPool := tb.DrawExcPool(rt)
			pool := tb.DrawPool(rt, excPool)
			tree := DrawTree(rt, len(pool), 3, 6)
			if tree.IsLeaf() {
				tree = &Node{Op: rapid.SampledFrom([]string{"AND", "OR"}).Draw(rt, fmt.Sprintf("op%d", i)), Kids: []*Node{leafNode(0), leafNode(len(pool) - 1)}}
			}
			expr := mkStr(tree.Render(Texts(pool), DrawSpacer(rt)))
			var list []StrCase
			for _, a := range tb.DrawAllowed(rt, pool, excPool, 4) {
				list = append(list, mkStr(a.Text))
			}
			base := len(h.Calls)
			h.Calls = append(h.Calls, PCall{Fn: "extract", Expr: expr}, PCall{Fn: "satisfies", Expr: expr, List: list}, PCall{Fn: "validate", List: append([]StrCase{expr}, list...)})
			for k := 0; k < 3; k++ {
				h.Steps = append(h.Steps, PStep{Kind: "call", Call: base + k})
			}
			st.Burst = append(st.Burst, []int{base, base + 1, base, base + 2, base + 1})
		}
		h.Steps = append(h.Steps, st)
		if cfg.Out != "" {
			raw, _ := json.Marshal(h)
			j, _ := json.Marshal(Violation{Check: "c13-history", Key: "C13/crash/" + fmt.Sprintf("%x", hash64(string(raw))), Msg: "the process died while executing this history", Case: raw})
			os.WriteFile("journal.json", j, 0o644)
		}
		out := checkC13(h)
		raw, _ := json.Marshal(h)
		rec.Case(true, string(raw), fmt.Sprintf("%d goroutines x %d rounds, first expression %s", g, rounds, h.Calls[0].Expr.S()), "hammer")
		rec.Tally("goroutines", int64(g))
		if !out.OK {
			rec.Fail(rt, "c13-history", out.Key, out.Msg, h)
		}
	})
	os.Remove("journal.json")
}
