module verif/harness

go 1.23

toolchain go1.23.5

require (
	github.com/github/go-spdx/v2 v2.0.0-00010101000000-000000000000
	pgregory.net/rapid v1.3.0
)

replace github.com/github/go-spdx/v2 => /repo
