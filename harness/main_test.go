package harness

import (
	"fmt"
	"os"
	"runtime"
	"strconv"
	"testing"
	"time"
)

// TestMain installs a memory guard for every unit process: a tree under test that allocates
// without bound (an exponential blow-up met by a check that is not about cost) must not take the
// machine down. Exceeding the limit ends the process with status 3, which the driver reports as
// INCONCLUSIVE (exit 2) — it is a verdict only in C14, whose own watchdog fires much earlier.
func TestMain(m *testing.M) {
	limit := uint64(10 << 30)
	if v, err := strconv.ParseUint(os.Getenv("VERIF_MEM_LIMIT_MB"), 10, 64); err == nil && v > 0 {
		limit = v << 20
	}
	go func() {
		for {
			time.Sleep(500 * time.Millisecond)
			var ms runtime.MemStats
			runtime.ReadMemStats(&ms)
			if ms.Sys > limit {
				fmt.Printf("RESOURCE-LIMIT: the test process holds %d MB (limit %d MB); giving up\n", ms.Sys>>20, limit>>20)
				os.Exit(3)
			}
		}
	}()
	os.Exit(m.Run())
}
