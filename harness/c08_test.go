package harness

import (
	"fmt"
	"strings"
	"testing"
)

// SubstCase: two spellings that must be interchangeable, and one context in which they are swapped.
type SubstCase struct {
	X     string `json:"x"`    // listed id
	Pair  string `json:"pair"` // "or-later" (X+ vs X-or-later) | "only" (X vs X-only)
	S1    string `json:"s1"`
	S2    string `json:"s2"`
	Probe string `json:"probe"` // the other side's single term, or "" for the validity-only case
	Exc1  string `json:"exc1"`  // exception attached to the swapped spelling ("" none)
	Ctx   string `json:"ctx"`   // "expr" | "allowed" | "embedded"
}

func init() { registerReplay("c08-subst", checkC08) }

// c08Exc: in the sibling template an exception on the first occurrence must differ from the
// template's own (Classpath) one, otherwise two occurrences would be the same term.
func c08Exc(e string) string {
	if e == "Classpath-exception-2.0" {
		return ""
	}
	return e
}

func withExcText(s, exc string) string {
	if exc == "" {
		return s
	}
	return s + " WITH " + exc
}

// checkC08: validity and the Satisfies result are unchanged by swapping one spelling for the other.
func checkC08(c SubstCase) Outcome {
	key := fmt.Sprintf("C08/%s/%s", c.X, c.Pair)
	t1, t2 := withExcText(c.S1, c.Exc1), withExcText(c.S2, c.Exc1)
	v1, p1 := Valid1(t1)
	v2, p2 := Valid1(t2)
	if p1 != "" || p2 != "" {
		return fail(key, "panic validating %q / %q: %s%s", t1, t2, p1, p2)
	}
	if v1 != v2 {
		return fail(key, "validity differs: ValidateLicenses({%q})=%v but ValidateLicenses({%q})=%v", t1, v1, t2, v2)
	}
	if c.Probe == "" || !v1 {
		return pass()
	}
	var r1, r2 SatRes
	var d1, d2 string
	switch c.Ctx {
	case "expr":
		r1, r2 = Satisfies(t1, []string{c.Probe}), Satisfies(t2, []string{c.Probe})
		d1, d2 = fmt.Sprintf("Satisfies(%q, {%q})", t1, c.Probe), fmt.Sprintf("Satisfies(%q, {%q})", t2, c.Probe)
	case "allowed":
		r1, r2 = Satisfies(c.Probe, []string{t1}), Satisfies(c.Probe, []string{t2})
		d1, d2 = fmt.Sprintf("Satisfies(%q, {%q})", c.Probe, t1), fmt.Sprintf("Satisfies(%q, {%q})", c.Probe, t2)
	case "embedded-siblings": // ONE occurrence is swapped while its siblings (with exception, with '+') keep the first spelling
		tmpl := func(x, y, z string) string {
			if c.Pair == "only" {
				z += "+" // X / X-only take a '+'; X+ / X-or-later already carry theirs
			}
			return fmt.Sprintf("ISC AND (%s OR %s WITH Classpath-exception-2.0 OR %s) AND Zlib AND (0BSD OR ISC)", withExcText(x, c08Exc(c.Exc1)), y, z)
		}
		e1 := tmpl(c.S1, c.S1, c.S1)
		r1 = Satisfies(e1, []string{"ISC", "Zlib", c.Probe})
		d1 = fmt.Sprintf("Satisfies(%q, {ISC, Zlib, %q})", e1, c.Probe)
		for k := 0; k < 3; k++ {
			sp := []string{c.S1, c.S1, c.S1}
			sp[k] = c.S2
			e2 := tmpl(sp[0], sp[1], sp[2])
			r2 = Satisfies(e2, []string{"ISC", "Zlib", c.Probe})
			d2 = fmt.Sprintf("Satisfies(%q, {ISC, Zlib, %q})", e2, c.Probe)
			if r1.Panic != "" || r2.Panic != "" || r1.IsErr || r2.IsErr || r1.OK != r2.OK {
				break
			}
		}
	case "long-allowed", "long-expr": // the swapped spelling meets the probe across an allowed list of 41 entries (index / bucket fast paths)
		pad := c11Padding(Tbl(), 40)
		at := int(hash64(c.S1+c.Probe) % uint64(len(pad)+1))
		mk := func(e string) []string {
			return append(append(append([]string{}, pad[:at]...), e), pad[at:]...)
		}
		if c.Ctx == "long-allowed" {
			r1, r2 = Satisfies(c.Probe, mk(t1)), Satisfies(c.Probe, mk(t2))
			d1, d2 = fmt.Sprintf("Satisfies(%q, {40 unrelated ids and %q at %d})", c.Probe, t1, at), fmt.Sprintf("Satisfies(%q, {40 unrelated ids and %q at %d})", c.Probe, t2, at)
		} else {
			r1, r2 = Satisfies(t1, mk(c.Probe)), Satisfies(t2, mk(c.Probe))
			d1, d2 = fmt.Sprintf("Satisfies(%q, {40 unrelated ids and %q at %d})", t1, c.Probe, at), fmt.Sprintf("Satisfies(%q, {40 unrelated ids and %q at %d})", t2, c.Probe, at)
		}
	case "embedded-lookalike": // reference names that spell the other form, to the left of the swapped term
		e1 := fmt.Sprintf("LicenseRef-%s OR DocumentRef-%s:LicenseRef-a OR %s", c.S2, c.S2, t1)
		e2 := fmt.Sprintf("LicenseRef-%s OR DocumentRef-%s:LicenseRef-a OR %s", c.S2, c.S2, t2)
		r1, r2 = Satisfies(e1, []string{c.Probe}), Satisfies(e2, []string{c.Probe})
		d1, d2 = fmt.Sprintf("Satisfies(%q, {%q})", e1, c.Probe), fmt.Sprintf("Satisfies(%q, {%q})", e2, c.Probe)
	default: // embedded in a compound expression, probe and a neutral id allowed
		e1 := fmt.Sprintf("(ISC AND %s) OR (Zlib AND (%s))", t1, t1)
		e2 := fmt.Sprintf("(ISC AND %s) OR (Zlib AND (%s))", t2, t2)
		r1, r2 = Satisfies(e1, []string{"Zlib", c.Probe}), Satisfies(e2, []string{"Zlib", c.Probe})
		d1, d2 = fmt.Sprintf("Satisfies(%q, {Zlib, %q})", e1, c.Probe), fmt.Sprintf("Satisfies(%q, {Zlib, %q})", e2, c.Probe)
	}
	if r1.Panic != "" || r2.Panic != "" {
		return fail(key, "panic: %s %s", r1.Panic, r2.Panic)
	}
	if r1.IsErr || r2.IsErr {
		return fail(key, "valid single terms but %s = %s, %s = %s", d1, r1, d2, r2)
	}
	if r1.OK != r2.OK {
		return fail(key, "%s = %v but %s = %v", d1, r1.OK, d2, r2.OK)
	}
	return pass()
}

// TestC08_Sweep: every listed id x both spelling pairs x contexts.
func TestC08_Sweep(t *testing.T) {
	cfg := Cfg()
	rec := NewRecorder("C08", "sweep", "EVERY active and deprecated id X (quick: all ids that sit in a table family or have a listed -only/-or-later sibling, plus a seeded 1/8 of the rest; thorough: all) x pairs (X+,X-or-later), (X,X-only) x contexts {expression term, allowed entry, either of those across an allowed list of 41 entries, embedded in a compound expression} x probes {every id of X's table family and stem with and without '+', X's own spellings, 3 unrelated ids} x {no exception, same exception both sides, exception on one side}; validity of all four spellings asserted for active X; oracle: validity and Satisfies unchanged by the substitution; non-trivial = probe is another id of the family, or '+' or an exception is involved; distinct by full case")
	defer rec.Finish(t)
	tb := Tbl()
	exc := "Classpath-exception-2.0"
	if _, ok := tb.ExceptionID(exc); !ok {
		exc = tb.Exceptions[0]
	}
	exc2 := tb.Exceptions[len(tb.Exceptions)/3]
	// stem index for probes outside the table
	byStem := map[string][]string{}
	for _, id := range tb.AllLic {
		if v := ParseVer(id); v.OK {
			byStem[v.Stem] = append(byStem[v.Stem], id)
		}
	}
	var ids []string
	all := cfg.Thorough()
	rec.Exhaustive = all
	for i, x := range tb.AllLic {
		interesting := len(tb.Positions(x)) > 0 || tb.IsListedLicense(x+"-only") || tb.IsListedLicense(x+"-or-later") ||
			strings.HasSuffix(x, "-only") || strings.HasSuffix(x, "-or-later")
		if all || interesting || (uint64(i)+uint64(cfg.Seed))%8 == 0 {
			ids = append(ids, x)
		}
	}
	parallelFor(len(ids), func(i int) {
		x := ids[i]
		_, active := tb.ActiveID(x)
		for _, pair := range []string{"or-later", "only"} {
			s1, s2 := x+"+", x+"-or-later"
			if pair == "only" {
				s1, s2 = x, x+"-only"
			}
			key := fmt.Sprintf("C08/%s/%s", x, pair)
			v1, _ := Valid1(s1)
			v2, _ := Valid1(s2)
			if active && (!v1 || !v2) {
				rec.Violate("c08-subst", key, fmt.Sprintf("%s is on the active list, so both %q and %q must be valid; got %v / %v", x, s1, s2, v1, v2),
					SubstCase{X: x, Pair: pair, S1: s1, S2: s2})
				continue
			}
			if !(v1 && v2) {
				rec.Exclude("pair not exercised: one spelling is not valid (deprecated-only base)")
				c := SubstCase{X: x, Pair: pair, S1: s1, S2: s2}
				rec.Case(false, fmt.Sprintf("%v", c), nil, "validity-only")
				continue
			}
			// probes
			probes := []string{x, x + "+", s1, s2}
			seen := map[string]bool{}
			for _, rel := range append(tb.Relatives(x), byStem[ParseVer(x).Stem]...) {
				if !seen[rel] {
					seen[rel] = true
					probes = append(probes, rel, rel+"+")
				}
			}
			probes = append(probes, tb.UnrelatedIDs()[:3]...)
			for pi, probe := range probes {
				for _, ctx := range []string{"expr", "allowed", "embedded", "embedded-siblings", "embedded-lookalike", "long-allowed", "long-expr"} {
					for ei, ex := range [][2]string{{"", ""}, {exc, exc}, {exc, ""}, {"", exc}, {exc, exc2}} {
						if strings.HasPrefix(ctx, "long-") && (ei > 1 || (pi >= 10 && !all)) {
							continue
						}
						if ctx == "embedded" && ei > 1 {
							continue
						}
						if ctx == "embedded-siblings" && ei != 0 && ei != 1 && ei != 3 {
							continue
						}
						if ctx == "embedded-lookalike" && (ei > 1 || strings.Contains(s2, "+")) {
							continue
						}
						c := SubstCase{X: x, Pair: pair, S1: s1, S2: s2, Probe: withExcText(probe, ex[1]), Exc1: ex[0], Ctx: ctx}
						out := checkC08(c)
						nontrivial := (probe != x && probe != s1 && probe != s2) || strings.HasSuffix(probe, "+") || ei > 0 || pair == "or-later"
						cls := []string{"pair-" + pair, "ctx-" + ctx}
						if ei > 0 {
							cls = append(cls, "with-exception")
						}
						rec.Case(nontrivial, fmt.Sprintf("%s|%s|%s|%s|%s", c.S1, c.S2, c.Probe, c.Exc1, c.Ctx), fmt.Sprintf("swap %q<->%q (exc %q) as %s against %q", c.S1, c.S2, c.Exc1, c.Ctx, c.Probe), cls...)
						if !out.OK {
							rec.Violate("c08-subst", out.Key, out.Msg, c)
						}
					}
				}
			}
		}
	})
}
