package harness

import (
	"fmt"
	"regexp"
	"strconv"
	"strings"
	"testing"

	"pgregory.net/rapid"
)

type OffsetCase struct {
	Input  string `json:"input"`
	Kind   string `json:"kind"`    // "unknown" | "missing"
	BadPos int    `json:"bad_pos"` // where the generator put the offending text (informational)
}

func init() { registerReplay("c15-offset", checkC15) }

var (
	// the property fixes WHAT an error cites (a byte offset; for unknown ids also the lexeme), not the
	// wording: any message with "offset <k>" and, for unknown ids, the lexeme in quotes is accepted
	reOffset = regexp.MustCompile(`(?i)offset[ :=]*(\d+)`)
	reQuoted = regexp.MustCompile("'([^']*)'|\"([^\"]*)\"|`([^`]*)`")
	// today's wording, used only to classify cases in the evidence
	reUnknown = regexp.MustCompile(`^unknown license '(.*)' at offset (\d+)$`)
)

// checkOffsetMsg verifies one error text against the caller's string.
func checkOffsetMsg(input, msg, kind string) string {
	m := reOffset.FindStringSubmatch(msg)
	if m == nil {
		return "the error cites no byte offset"
	}
	k, _ := strconv.Atoi(m[1])
	if k < 0 || k > len(input) {
		return fmt.Sprintf("offset %d lies outside the %d-byte argument", k, len(input))
	}
	if kind == "missing" {
		if !strings.HasSuffix(input[:k], "Ref-") {
			return fmt.Sprintf("offset %d does not follow a 'LicenseRef-' / 'DocumentRef-' prefix in the argument (before it: %q)", k, input[max(0, k-12):k])
		}
		if k < len(input) && isIDByte(input[k]) {
			return fmt.Sprintf("an id does follow at offset %d of the argument (%q)", k, input[k:min(len(input), k+8)])
		}
		return ""
	}
	q := reQuoted.FindStringSubmatch(msg)
	if q == nil {
		return "the error about an unknown identifier does not cite the offending lexeme"
	}
	lex := q[1] + q[2] + q[3]
	if lex == "" {
		return "the cited lexeme is empty"
	}
	if k+len(lex) > len(input) || input[k:k+len(lex)] != lex {
		got := input[k:min(len(input), k+len(lex))]
		return fmt.Sprintf("the cited lexeme %q is not at offset %d of the argument (there: %q)", lex, k, got)
	}
	if (k > 0 && isIDByte(input[k-1])) || (k+len(lex) < len(input) && isIDByte(input[k+len(lex)])) {
		return fmt.Sprintf("the cited lexeme %q at offset %d is only part of the identifier in the argument", lex, k)
	}
	return ""
}

// checkC15: the error of each entry point cites an offset (and lexeme) that is true of the
// string the caller passed in.
func checkC15(c OffsetCase) Outcome {
	key := "C15/offset/" + c.Input
	calls := []struct {
		name string
		f    func() (string, bool, string)
	}{
		{"Satisfies(input, {MIT})", func() (string, bool, string) { r := Satisfies(c.Input, []string{"MIT"}); return r.Err, r.IsErr, r.Panic }},
		{"ExtractLicenses(input)", func() (string, bool, string) { r := Extract(c.Input); return r.Err, r.IsErr, r.Panic }},
		{"Satisfies(MIT, {input})", func() (string, bool, string) { r := Satisfies("MIT", []string{c.Input}); return r.Err, r.IsErr, r.Panic }},
	}
	for _, call := range calls {
		msg, isErr, p := call.f()
		if p != "" {
			return fail("C15/panic/"+c.Input, "%s with input %q panicked: %s", call.name, c.Input, p)
		}
		if !isErr {
			return fail(key, "%s with input %q returned no error although it contains an %s identifier", call.name, c.Input, c.Kind)
		}
		if why := checkOffsetMsg(c.Input, msg, c.Kind); why != "" {
			return fail(key, "%s with input %q returned error %q: %s", call.name, c.Input, msg, why)
		}
	}
	return pass()
}

// drawCleanPrefix draws tokens that scan cleanly (they need not parse).
func drawCleanPrefix(rt *rapid.T, tb *Tables) (toks []Tok, rewrites, folds int) {
	n := rapid.IntRange(0, 8).Draw(rt, "prefixLen")
	for i := 0; i < n; i++ {
		label := fmt.Sprintf("p%d", i)
		switch w := rapid.IntRange(0, 19).Draw(rt, label+"Kind"); {
		case w < 9:
			base := tb.DrawBase(rt, label)
			form := rapid.SampledFrom([]string{"", "-or-later", "-or-later", "-or-later", "-only", "+", "-or-later+"}).Draw(rt, label+"Form")
			if !tb.FormValid(base, form) {
				form = ""
			}
			sp := recase(base, drawCase(rt, label+"Case"))
			plus := false
			switch form {
			case "-or-later", "-only":
				sp += form
			case "-or-later+":
				sp += "-or-later"
				plus = true
			case "+":
				plus = true
			}
			if strings.HasSuffix(sp, "-or-later") {
				if _, listed := tb.ActiveID(sp); !listed {
					if _, ok := tb.ActiveID(strings.TrimSuffix(sp, "-or-later")); ok {
						rewrites++
					}
				}
			}
			toks = append(toks, Tok{kLIC, sp})
			if plus {
				if tb.FoldsPlus(sp) {
					folds++
				}
				toks = append(toks, Tok{kPLUS, "+"})
			}
		case w < 11:
			toks = append(toks, Tok{kAND, "AND"})
		case w < 13:
			toks = append(toks, Tok{kOR, "OR"})
		case w < 14:
			toks = append(toks, Tok{kWITH, "WITH"}, Tok{kEXC, rapid.SampledFrom(tb.Exceptions).Draw(rt, label+"Exc")})
		case w < 16:
			toks = append(toks, Tok{kLP, "("})
		case w < 18:
			toks = append(toks, Tok{kRP, ")"})
		case w < 19:
			toks = append(toks, Tok{kLREF, "LicenseRef-" + rapid.SampledFrom(refNames).Draw(rt, label+"Ref")})
		default:
			toks = append(toks, Tok{kDREF, "DocumentRef-" + rapid.SampledFrom(docNames).Draw(rt, label+"Doc")}, Tok{kCOLON, ":"})
		}
	}
	return toks, rewrites, folds
}

func TestC15_Offsets(t *testing.T) {
	rec := NewRecorder("C15", "offsets", "input = prefix ++ bad ++ suffix: prefix = 0-8 generated tokens that scan cleanly (listed ids in every form incl. 0-6 synthesised -or-later rewrites and folded '+', operators, parentheses, references, generated spacing), bad = an unknown identifier or 'LicenseRef-'/'DocumentRef-' with no id after it, suffix = generated tokens; passed to Satisfies (as expression and as allowed entry) and ExtractLicenses; oracle: the error cites an offset inside the argument, the cited lexeme is found (whole) at exactly that offset / a '...Ref-' prefix ends exactly there; non-trivial = at least one -or-later rewrite or folded '+' precedes the bad identifier; distinct by input")
	defer rec.Finish(t)
	tb := Tbl()
	rec.Rapid(t, func(rt *rapid.T) {
		prefix, rewrites, folds := drawCleanPrefix(rt, tb)
		sp := DrawSpacer(rt)
		var bad Tok
		kind := "unknown"
		if rapid.IntRange(0, 3).Draw(rt, "missing") == 0 {
			kind = "missing"
			bad = Tok{kLREF, rapid.SampledFrom([]string{"LicenseRef-", "DocumentRef-"}).Draw(rt, "badRef")}
		} else {
			bad = Tok{kUNK, tb.DrawUnknown(rt, "bad")}
		}
		suffix := tb.DrawToks(rt, 0, 4, true)
		if kind == "missing" && len(suffix) > 0 && (wordLike(suffix[0].K) || suffix[0].K == kPLUS) {
			// the byte after 'Ref-' must not be an id byte: separate with a non-id token
			suffix = append([]Tok{{kRP, ")"}}, suffix...)
		}
		head := RenderToks(append(append([]Tok{}, prefix...), bad), sp)
		head = strings.TrimRight(head, " ")
		badPos := len(head) - len(bad.T)
		tail := ""
		if len(suffix) > 0 {
			tail = RenderToks(suffix, sp)
			if kind == "unknown" && tail != "" && isIDByte(tail[0]) {
				tail = " " + tail
			}
			if kind == "missing" && tail != "" && (isIDByte(tail[0])) {
				tail = " " + tail
			}
		}
		c := OffsetCase{Input: head + tail + drawSpaces(rt, "trailingBlanks", 0, 3), Kind: kind, BadPos: badPos}
		out := checkC15(c)
		classes := []string{"kind-" + kind}
		if rewrites > 0 {
			classes = append(classes, fmt.Sprintf("rewrites-%d", min(rewrites, 3)))
		}
		if folds > 0 {
			classes = append(classes, "folded-plus")
		}
		if out.OK {
			// informational: does the reported offset equal the generator's position?
			if m := reUnknown.FindStringSubmatch(Extract(c.Input).Err); m != nil {
				if k, _ := strconv.Atoi(m[2]); k == badPos {
					classes = append(classes, "offset-equals-generated-position")
				}
			}
		}
		rec.Case(rewrites+folds > 0, c.Input, c.Input, classes...)
		if !out.OK {
			rec.Fail(rt, "c15-offset", out.Key, out.Msg, c)
		}
	})
}

// AnyErrCase: any (mostly invalid) input; whatever error text comes back, if it cites an offset and
// a quoted lexeme they must be true of the argument.
type AnyErrCase struct {
	S StrCase `json:"s"`
}

func init() { registerReplay("c15-any-error", checkC15Any) }

func checkC15Any(c AnyErrCase) Outcome {
	in := c.S.S()
	msgs := map[string]string{}
	if r := Extract(in); r.IsErr {
		msgs["ExtractLicenses(input)"] = r.Err
	}
	if r := Satisfies(in, []string{"MIT"}); r.IsErr {
		msgs["Satisfies(input, {MIT})"] = r.Err
	}
	if r := Satisfies("MIT", []string{in}); r.IsErr {
		msgs["Satisfies(MIT, {input})"] = r.Err
	}
	for call, msg := range msgs {
		m := reOffset.FindStringSubmatch(msg)
		if m == nil {
			continue // this error cites no location: nothing to contradict
		}
		k, _ := strconv.Atoi(m[1])
		if k < 0 || k > len(in) {
			return fail("C15/any/"+shortKey(in), "%s with input %s returned error %q: offset %d lies outside the %d-byte argument", call, shortKey(in), msg, k, len(in))
		}
		if !strings.Contains(msg, "license") && !strings.Contains(msg, "expected id") {
			continue // e.g. "unexpected 'x' at offset k": a character, checked next
		}
		if q := reQuoted.FindStringSubmatch(msg); q != nil {
			lex := q[1] + q[2] + q[3]
			if lex == "" || k+len(lex) > len(in) || in[k:k+len(lex)] != lex {
				return fail("C15/any/"+shortKey(in), "%s with input %s returned error %q: the cited lexeme %q is not at offset %d of the argument (there: %q)", call, shortKey(in), msg, lex, k, in[k:min(len(in), k+len(lex))])
			}
		}
	}
	return pass()
}

// TestC15_AnyError: the C04/C05 input mix; every error text that cites an offset and a lexeme is held
// to it, whatever kind of error the library considers it to be.
func TestC15_AnyError(t *testing.T) {
	rec := NewRecorder("C15", "any-error", "strings from the C04 input mix (valid trees, token sequences incl. open spellings and exception ids in license position in any letter case, single edits, raw bytes) through Satisfies (both positions) and ExtractLicenses; oracle: whenever an error text cites 'offset <k>' the offset lies within the argument, and when it also cites a quoted identifier that identifier is found at exactly that offset (byte for byte); non-trivial = an error citing an offset was returned; distinct by input")
	defer rec.Finish(t)
	tb := Tbl()
	rec.Rapid(t, func(rt *rapid.T) {
		var s string
		if rapid.IntRange(0, 3).Draw(rt, "excAsLicense") == 0 {
			// an exception id where a license is expected, re-cased, after a generated clean prefix
			prefix, _, _ := drawCleanPrefix(rt, tb)
			exc := recase(rapid.SampledFrom(tb.Exceptions).Draw(rt, "exc"), drawCase(rt, "excCase")+1)
			s = RenderToks(append(prefix, Tok{kEXC, exc}), DrawSpacer(rt)) + drawSpaces(rt, "trail", 0, 3)
		} else {
			s = drawEntry(rt, "e", false).S.S() + drawSpaces(rt, "trail", 0, 3)
		}
		c := AnyErrCase{S: mkStr(s)}
		out := checkC15Any(c)
		cites := false
		if r := Extract(s); r.IsErr && reOffset.MatchString(r.Err) {
			cites = true
		}
		rec.Case(cites, s, mkStr(s).Text)
		if !out.OK {
			rec.Fail(rt, "c15-any-error", out.Key, out.Msg, c)
		}
	})
}
