package harness

import (
	"fmt"
	"sort"
	"strings"
	"testing"

	"pgregory.net/rapid"
)

func init() {
	registerReplay("c06-extract", checkC06)
	registerReplay("c06-term", checkC06Term)
}

func setOf(ss []string) map[string]bool {
	m := map[string]bool{}
	for _, s := range ss {
		m[s] = true
	}
	return m
}

func sortedKeys(m map[string]bool) []string {
	out := make([]string, 0, len(m))
	for k := range m {
		out = append(out, k)
	}
	sort.Strings(out)
	return out
}

// checkC06: ExtractLicenses(expr) is exactly the set of the per-term extractions, without
// duplicates; every returned string is a valid single term that extracts to itself; the returned
// list satisfies the expression.
func checkC06(c TreeCase) Outcome {
	key := "C06/extract/" + c.Expr
	er := Extract(c.Expr)
	if er.Panic != "" {
		return fail("C06/panic/"+c.Expr, "ExtractLicenses(%q) panicked: %s", c.Expr, er.Panic)
	}
	if er.IsErr {
		return fail(key, "ExtractLicenses(%q) returned error %q for a valid expression", c.Expr, er.Err)
	}
	leaves := map[int]bool{}
	c.Tree.LeafSet(leaves)
	want := map[string]bool{}
	for i := range leaves {
		lr := Extract(c.Pool[i].Text)
		if lr.Panic != "" || lr.IsErr || len(lr.Licenses) != 1 {
			return fail("C06/term/"+c.Pool[i].Text, "ExtractLicenses(%q) = %q, err=%q %s: a single term must extract to exactly one string", c.Pool[i].Text, lr.Licenses, lr.Err, lr.Panic)
		}
		want[lr.Licenses[0]] = true
	}
	got := setOf(er.Licenses)
	if len(got) != len(er.Licenses) {
		return fail(key, "ExtractLicenses(%q) = %q contains duplicates", c.Expr, er.Licenses)
	}
	for w := range want {
		if !got[w] {
			return fail(key, "ExtractLicenses(%q) = %q misses %q, which is the extraction of one of its terms (all: %q)", c.Expr, er.Licenses, w, sortedKeys(want))
		}
	}
	for g := range got {
		if !want[g] {
			return fail(key, "ExtractLicenses(%q) = %q invents %q, which is the extraction of none of its terms (all: %q)", c.Expr, er.Licenses, g, sortedKeys(want))
		}
	}
	for _, x := range er.Licenses {
		xr := Extract(x)
		if xr.Panic != "" || xr.IsErr || len(xr.Licenses) != 1 || xr.Licenses[0] != x {
			return fail(key, "returned string %q is not a fix-point: ExtractLicenses(%q) = %q, err=%q %s", x, x, xr.Licenses, xr.Err, xr.Panic)
		}
		if sr := Satisfies(x, []string{x}); sr.Panic != "" || sr.IsErr || !sr.OK {
			return fail(key, "returned string %q is not usable as a single allowed entry: Satisfies(%q, {%q}) = %s", x, x, x, sr)
		}
	}
	if sr := Satisfies(c.Expr, er.Licenses); sr.Panic != "" || sr.IsErr || !sr.OK {
		return fail(key, "Satisfies(%q, ExtractLicenses(...)=%q) = %s, expected (true, nil)", c.Expr, er.Licenses, sr)
	}
	return pass()
}

func TestC06_Trees(t *testing.T) {
	rec := NewRecorder("C06", "trees", "rapid-generated expression trees with re-spelled repeats of the same term (case, -only, +/-or-later); oracle: set(Extract(e)) == union of Extract(term) over its terms, no duplicates, every output a valid single term with Extract(x)==[x], Satisfies(e, Extract(e)) == (true,nil); non-trivial = >= 3 distinct extracted terms and at least one OR; distinct by expression")
	defer rec.Finish(t)
	rec.Rapid(t, func(rt *rapid.T) {
		c := drawTreeCase(rt, 1)
		c.Allowed, c.AllowedTerms = nil, nil
		out := checkC06(c)
		n := 0
		if out.OK {
			n = len(Extract(c.Expr).Licenses)
		}
		hasOr := strings.Contains(c.Tree.Shape(), "|")
		classes := treeClasses(c.Tree, c.Pool)
		leaves := map[int]bool{}
		c.Tree.LeafSet(leaves)
		if n < len(leaves) {
			classes = append(classes, "respelled-repeat-collapsed")
		}
		rec.Case(n >= 3 && hasOr, c.Expr, c.Expr, classes...)
		if !out.OK {
			rec.Fail(rt, "c06-extract", out.Key, out.Msg, c)
		}
	})
}

// TermOutCase: one single term (any spelling) and the properties of its canonical output.
type TermOutCase struct {
	Term Term `json:"term"`
}

// checkC06Term: the canonical spelling keeps the list's casing, '+' and WITH exception, and
// denotes the same term (behaviourally) as the input; references come back verbatim.
func checkC06Term(c TermOutCase) Outcome {
	tb := Tbl()
	in := c.Term
	key := "C06/term/" + in.Text
	er := Extract(in.Text)
	if er.Panic != "" || er.IsErr || len(er.Licenses) != 1 {
		return fail(key, "ExtractLicenses(%q) = %q err=%q %s: expected exactly one string", in.Text, er.Licenses, er.Err, er.Panic)
	}
	out := er.Licenses[0]
	if in.Kind == "ref" {
		if out != in.Text {
			return fail(key, "ExtractLicenses(%q) = %q: a LicenseRef / DocumentRef term must come back verbatim", in.Text, out)
		}
		return pass()
	}
	idPart, excPart, hasExc := strings.Cut(out, " WITH ")
	if hasExc != (in.Exc != "") || excPart != in.Exc {
		return fail(key, "ExtractLicenses(%q) = %q: the exception must be kept in the list's own casing (%q)", in.Text, out, in.Exc)
	}
	bare := strings.TrimSuffix(idPart, "+")
	listed := false
	for _, cand := range []string{bare, strings.TrimSuffix(bare, "-only"), strings.TrimSuffix(bare, "-or-later")} {
		for _, l := range tb.Active {
			listed = listed || l == cand
		}
		for _, l := range tb.Deprecated {
			listed = listed || l == cand
		}
	}
	if !listed {
		return fail(key, "ExtractLicenses(%q) = %q: %q is not an id in the SPDX list's own casing", in.Text, out, bare)
	}
	if !strings.EqualFold(strings.TrimSuffix(strings.TrimSuffix(bare, "-or-later"), "-only"), strings.TrimSuffix(strings.TrimSuffix(in.ID, "-or-later"), "-only")) &&
		!strings.EqualFold(bare, in.ID) {
		return fail(key, "ExtractLicenses(%q) = %q names a different license than the input (%s)", in.Text, out, in.ID)
	}
	// '+' kept: the canonical spelling carries a '+' (or names an -or-later id) exactly when the input
	// term, by the documented reading of its spelling, allows later versions
	carries := strings.HasSuffix(idPart, "+") || strings.HasSuffix(bare, "-or-later")
	if carries != in.Plus {
		return fail(key, "ExtractLicenses(%q) = %q: the input %s later versions, the canonical spelling %s", in.Text, out,
			map[bool]string{true: "allows", false: "does not allow"}[in.Plus], map[bool]string{true: "does", false: "does not"}[carries])
	}
	// same denotation: input and output match the same probes, in both directions
	probes := []string{}
	for _, rel := range tb.Relatives(in.Base) {
		probes = append(probes, rel, rel+"+")
	}
	for _, p := range probes {
		p = withExcText(p, in.Exc)
		a, b := Satisfies(in.Text, []string{p}), Satisfies(out, []string{p})
		a2, b2 := Satisfies(p, []string{in.Text}), Satisfies(p, []string{out})
		if a.IsErr || b.IsErr || a2.IsErr || b2.IsErr || a.OK != b.OK || a2.OK != b2.OK {
			return fail(key, "the canonical spelling %q does not denote the same term as %q: against %q they give %s/%s (as expression) and %s/%s (as allowed entry)", out, in.Text, p, a, b, a2, b2)
		}
	}
	return pass()
}

// TestC06_Terms: every listed id x every asserted form x {listed, lower, upper} x {no exception, exception}.
func TestC06_Terms(t *testing.T) {
	rec := NewRecorder("C06", "terms", "EVERY listed license id x forms {plain,+,-only,-or-later,-or-later+} (those whose validity is fixed) x case {listed,lower,upper} x {no exception, one exception in lower case}, plus LicenseRef/DocumentRef terms; oracle: exactly one output, list casing for id and exception, exception kept, same behaviour as the input against every id of its family with and without '+', references verbatim; non-trivial = spelling differs from the canonical output; distinct by input text")
	rec.Exhaustive = true
	defer rec.Finish(t)
	tb := Tbl()
	var terms []Term
	exc := tb.Exceptions[len(tb.Exceptions)/2]
	for _, id := range tb.AllLic {
		for _, form := range []string{"", "+", "-only", "-or-later", "-or-later+"} {
			if !tb.FormValid(id, form) {
				continue
			}
			for cv := uint32(0); cv < 3; cv++ {
				terms = append(terms, tb.MakeLicTerm(id, form, cv, "", 0, "", ""))
			}
			terms = append(terms, tb.MakeLicTerm(id, form, 1, exc, 1, " ", "  "))
		}
	}
	for _, r := range refNames {
		terms = append(terms, MakeRefTerm("", r))
		for _, d := range docNames {
			terms = append(terms, MakeRefTerm(d, r))
		}
	}
	parallelFor(len(terms), func(i int) {
		c := TermOutCase{Term: terms[i]}
		out := checkC06Term(c)
		got := ""
		if r := Extract(terms[i].Text); len(r.Licenses) == 1 {
			got = r.Licenses[0]
		}
		cls := "form" + terms[i].Form
		if terms[i].Kind == "ref" {
			cls = "ref"
		}
		rec.Case(got != terms[i].Text, terms[i].Text, fmt.Sprintf("%s -> %s", terms[i].Text, got), cls)
		if !out.OK {
			rec.Violate("c06-term", out.Key, out.Msg, c)
		}
	})
}
