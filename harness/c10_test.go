package harness

import (
	"fmt"
	"sort"
	"strings"
	"testing"

	"pgregory.net/rapid"
)

type RewriteCase struct {
	Pool     []Term     `json:"pool"`
	E1       *Node      `json:"e1"`
	E2       *Node      `json:"e2"`
	Expr1    string     `json:"expr1"`
	Expr2    string     `json:"expr2"`
	Allowed  [][]string `json:"allowed"`
	Rewrites []string   `json:"rewrites"`
}

type ComposeCase struct {
	E       string   `json:"e"`
	F       string   `json:"f"`
	Allowed []string `json:"allowed"`
}

func init() {
	registerReplay("c10-rewrite", checkC10)
	registerReplay("c10-compose", checkC10Compose)
}

func leafIdxSet(n *Node) string {
	m := map[int]bool{}
	n.LeafSet(m)
	var ks []int
	for k := range m {
		ks = append(ks, k)
	}
	sort.Ints(ks)
	return fmt.Sprint(ks)
}

// checkC10: two expressions related by sound Boolean rewrites get the same verdict under every
// list, and the same extracted set when the rewrites kept the set of terms.
func checkC10(c RewriteCase) Outcome {
	key := fmt.Sprintf("C10/rewrite/%s <=> %s", c.Expr1, c.Expr2)
	for _, a := range c.Allowed {
		r1, r2 := Satisfies(c.Expr1, a), Satisfies(c.Expr2, a)
		if r1.Panic != "" || r2.Panic != "" {
			return fail(key, "panic: %s %s", r1.Panic, r2.Panic)
		}
		if r1.IsErr || r2.IsErr {
			return fail(key, "valid input but Satisfies(%q, %q) = %s, Satisfies(%q, %q) = %s", c.Expr1, a, r1, c.Expr2, a, r2)
		}
		if r1.OK != r2.OK {
			return fail(key+" | "+strings.Join(a, ","), "equivalent expressions (%v) disagree under %q: Satisfies(%q) = %v, Satisfies(%q) = %v", c.Rewrites, a, c.Expr1, r1.OK, c.Expr2, r2.OK)
		}
	}
	if leafIdxSet(c.E1) == leafIdxSet(c.E2) {
		x1, x2 := Extract(c.Expr1), Extract(c.Expr2)
		if x1.Panic != "" || x2.Panic != "" || x1.IsErr || x2.IsErr {
			return fail(key, "ExtractLicenses failed on valid input: %+v %+v", x1, x2)
		}
		s1, s2 := sortedKeys(setOf(x1.Licenses)), sortedKeys(setOf(x2.Licenses))
		if !sameStrings(s1, s2) {
			return fail(key, "the rewrites %v keep the set of terms, but ExtractLicenses(%q) = %q and ExtractLicenses(%q) = %q", c.Rewrites, c.Expr1, s1, c.Expr2, s2)
		}
	}
	return pass()
}

func checkC10Compose(c ComposeCase) Outcome {
	key := fmt.Sprintf("C10/compose/%s ; %s | %s", c.E, c.F, strings.Join(c.Allowed, ","))
	re, rf := Satisfies(c.E, c.Allowed), Satisfies(c.F, c.Allowed)
	and := Satisfies("("+c.E+") AND ("+c.F+")", c.Allowed)
	or := Satisfies("("+c.E+") OR ("+c.F+")", c.Allowed)
	for _, r := range []SatRes{re, rf, and, or} {
		if r.Panic != "" || r.IsErr {
			return fail(key, "valid input but got %s (E=%q F=%q A=%q)", r, c.E, c.F, c.Allowed)
		}
	}
	if and.OK != (re.OK && rf.OK) {
		return fail(key, "Satisfies(\"(%s) AND (%s)\", %q) = %v but Satisfies(E)=%v, Satisfies(F)=%v", c.E, c.F, c.Allowed, and.OK, re.OK, rf.OK)
	}
	if or.OK != (re.OK || rf.OK) {
		return fail(key, "Satisfies(\"(%s) OR (%s)\", %q) = %v but Satisfies(E)=%v, Satisfies(F)=%v", c.E, c.F, c.Allowed, or.OK, re.OK, rf.OK)
	}
	return pass()
}

func TestC10_Rewrites(t *testing.T) {
	rec := NewRecorder("C10", "rewrites", "rapid-generated tree e1, 1-6 generated Boolean rewrites (commute, associativity both ways, idempotence both ways, absorption, distribution, factoring; both dualities) at generated positions give e2; both rendered with independent parentheses/spacing; 1-3 generated allowed lists; oracle (metamorphic): equal verdicts, equal ExtractLicenses sets when the leaf sets are equal; non-trivial = trees differ structurally and e1 has >= 3 leaves; distinct by (expr1, expr2)")
	defer rec.Finish(t)
	tb := Tbl()
	rec.Rapid(t, func(rt *rapid.T) {
		excPool := tb.DrawExcPool(rt)
		pool := tb.DrawPool(rt, excPool)
		e1 := DrawTree(rt, len(pool), 4, 12)
		if e1.Alternatives() > 1024 {
			e1 = &Node{Op: "OR", Kids: []*Node{leafNode(0), leafNode(len(pool) - 1)}}
		}
		e2, applied := Rewrite(rt, e1, len(pool), 6)
		c := RewriteCase{Pool: pool, E1: e1, E2: e2, Rewrites: applied}
		c.Expr1 = e1.Render(Texts(pool), DrawSpacer(rt))
		c.Expr2 = e2.Render(Texts(pool), DrawSpacer(rt))
		for i := rapid.IntRange(1, 3).Draw(rt, "nLists"); i > 0; i-- {
			c.Allowed = append(c.Allowed, Texts(tb.DrawAllowed(rt, pool, excPool, 6)))
		}
		out := checkC10(c)
		classes := []string{}
		seen := map[string]bool{}
		for _, k := range applied {
			if !seen[k] {
				seen[k] = true
				classes = append(classes, "rw-"+k)
			}
		}
		if leafIdxSet(e1) == leafIdxSet(e2) {
			classes = append(classes, "term-set-preserved")
		}
		for _, a := range c.Allowed {
			if Satisfies(c.Expr1, a).OK {
				classes = append(classes, "verdict-true")
			} else {
				classes = append(classes, "verdict-false")
			}
		}
		rec.Case(e1.Shape() != e2.Shape() && e1.Leaves() >= 3, c.Expr1+" <=> "+c.Expr2, map[string]any{"expr1": c.Expr1, "expr2": c.Expr2, "rewrites": applied, "allowed": c.Allowed}, classes...)
		if !out.OK {
			rec.Fail(rt, "c10-rewrite", out.Key, out.Msg, c)
		}
	})
}

func TestC10_Compose(t *testing.T) {
	rec := NewRecorder("C10", "compose", "rapid-generated E, F over a shared pool and an allowed list A (a quarter of the cases: E, F = single versions or short chains of versions of one table family, A = one or two entries of that family, the first with '+'); oracle: Satisfies('(E) AND (F)',A) == Satisfies(E,A) && Satisfies(F,A), and likewise OR; non-trivial = E and F differ and one of them has >= 2 leaves or the case is of the family kind; distinct by (E,F,A)")
	defer rec.Finish(t)
	tb := Tbl()
	rec.Rapid(t, func(rt *rapid.T) {
		excPool := tb.DrawExcPool(rt)
		pool := tb.DrawPool(rt, excPool)
		te, tf := DrawTree(rt, len(pool), 4, 10), DrawTree(rt, len(pool), 4, 10)
		if te.Alternatives()*tf.Alternatives() > 4096 {
			tf = leafNode(0)
		}
		c := ComposeCase{E: te.Render(Texts(pool), DrawSpacer(rt)), F: tf.Render(Texts(pool), DrawSpacer(rt)), Allowed: Texts(tb.DrawAllowed(rt, pool, excPool, 6))}
		rangeCover := false
		if rapid.IntRange(0, 3).Draw(rt, "rangeCover") == 0 {
			// few entries, many terms: E and F are single versions (or short AND / OR chains of versions) of one
			// table family and the allowed list is one or two 'X+' entries of that family, so that one entry
			// covers several different terms - the shape a counting or one-entry-per-term shortcut gets wrong
			ids := famIDs(tb, rapid.SampledFrom(tb.Ranges).Draw(rt, "rcFam"))
			if len(ids) >= 2 {
				part := func(label string) string {
					k := rapid.SampledFrom([]int{1, 1, 2, 3}).Draw(rt, label+"N")
					op := rapid.SampledFrom([]string{" AND ", " AND ", " OR "}).Draw(rt, label+"Op")
					var ts []string
					for i := 0; i < k; i++ {
						ts = append(ts, rapid.SampledFrom(ids).Draw(rt, fmt.Sprintf("%s%d", label, i)))
					}
					return strings.Join(ts, op)
				}
				c.E, c.F = part("rcE"), part("rcF")
				c.Allowed = []string{rapid.SampledFrom(ids).Draw(rt, "rcA0") + "+"}
				if rapid.IntRange(0, 2).Draw(rt, "rcTwo") == 0 {
					c.Allowed = append(c.Allowed, rapid.SampledFrom(ids).Draw(rt, "rcA1"))
				}
				te, tf = leafNode(0), leafNode(0)
				rangeCover = true
				rec.Class("range-cover")
			}
		}
		out := checkC10Compose(c)
		re, rf := Satisfies(c.E, c.Allowed).OK, Satisfies(c.F, c.Allowed).OK
		rec.Case(c.E != c.F && (te.Leaves() >= 2 || tf.Leaves() >= 2 || rangeCover), c.E+" ; "+c.F+" | "+strings.Join(c.Allowed, ","), map[string]any{"e": c.E, "f": c.F, "allowed": c.Allowed}, fmt.Sprintf("E=%v,F=%v", re, rf))
		if !out.OK {
			rec.Fail(rt, "c10-compose", out.Key, out.Msg, c)
		}
	})
}

// TestC10_Wide: commutativity and the compositional law on chains of many distinct terms.
func TestC10_Wide(t *testing.T) {
	rec := NewRecorder("C10", "wide", "flat OR / AND chains over 2-300 distinct listed ids (sizes around 16, 32, 64, 128, 256 over-represented): the chain, a generated rotation of it and a generated permutation must get the same verdict under a list that makes one generated position decisive, and '(E) AND (F)' / '(E) OR (F)' for a generated split of the chain must equal the conjunction / disjunction of the parts; non-trivial = >= 20 terms; distinct by (chain, list)")
	defer rec.Finish(t)
	tb := Tbl()
	var ids []string
	for _, id := range tb.Active {
		if idShaped(id) && len(tb.Positions(id)) == 0 && !strings.HasSuffix(id, "-only") && !strings.HasSuffix(id, "-or-later") {
			ids = append(ids, id)
		}
	}
	rec.Rapid(t, func(rt *rapid.T) {
		n := rapid.SampledFrom([]int{2, 3, 8, 15, 16, 17, 31, 32, 33, 63, 64, 65, 66, 100, 127, 128, 129, 200, 255, 256, 257, 300}).Draw(rt, "n")
		perm := rapid.Permutation(ids).Draw(rt, "ids")[:n]
		op := rapid.SampledFrom([]string{"OR", "AND"}).Draw(rt, "op")
		if op == "AND" && n > 66 {
			// an AND chain needs an allowed list of about n entries, and the library compares every term
			// with every entry through a fresh copy of the range table: kept to the sizes around 64
			n = 63 + n%4
			perm = perm[:n]
		}
		k := rapid.IntRange(0, n-1).Draw(rt, "decisive")
		var allowed []string
		if op == "OR" {
			allowed = []string{perm[k]}
		} else {
			for i, id := range perm {
				if i != k || rapid.IntRange(0, 2).Draw(rt, "all") == 0 {
					allowed = append(allowed, id)
				}
			}
			if len(allowed) == 0 {
				allowed = []string{"MIT"}
			}
		}
		join := func(xs []string) string { return strings.Join(xs, " "+op+" ") }
		rot := rapid.IntRange(0, n-1).Draw(rt, "rotation")
		rotated := append(append([]string{}, perm[rot:]...), perm[:rot]...)
		shuffled := rapid.Permutation(perm).Draw(rt, "shuffle")
		c := RewriteCase{Expr1: join(perm), Allowed: [][]string{allowed}, Rewrites: []string{"commute"}, E1: leafNode(0), E2: leafNode(1)}
		for _, e2 := range []string{join(rotated), join(shuffled)} {
			c.Expr2 = e2
			if out := checkC10(c); !out.OK {
				rec.Fail(rt, "c10-rewrite", out.Key, out.Msg, c)
			}
		}
		if n >= 2 {
			cut := rapid.IntRange(1, n-1).Draw(rt, "cut")
			cc := ComposeCase{E: join(perm[:cut]), F: join(perm[cut:]), Allowed: allowed}
			if out := checkC10Compose(cc); !out.OK {
				rec.Fail(rt, "c10-compose", out.Key, out.Msg, cc)
			}
		}
		rec.Case(n >= 20, join(perm)+" | "+strings.Join(allowed, ","), map[string]any{"terms": n, "op": op, "decisive_position": k, "head": firstN(join(perm), 80)}, "op-"+op)
	})
}
