package harness

import (
	"encoding/json"
	"fmt"
	"os"
	"os/exec"
	"strconv"
	"strings"
	"testing"
	"time"
)

// SizeCase: a very long or very deeply nested input, built deterministically from (family, n).
type SizeCase struct {
	Family string `json:"family"`
	N      int    `json:"n"`
}

func init() { registerReplay("c03-size", checkC03Size) }

func buildSize(c SizeCase) (expr string, list []string) {
	list = []string{"MIT"}
	switch c.Family {
	case "and-chain", "or-chain", "nesting", "alternating-nest", "left-nested-and", "or-later-rewrites", "long-id", "long-ref", "spaces", "and-of-2ors", "long-list", "refs-or":
		return buildFamily(c.Family, c.N)
	case "open-parens":
		return strings.Repeat("(", c.N), list
	case "close-parens":
		return "MIT" + strings.Repeat(")", c.N), list
	case "unclosed-nesting":
		return strings.Repeat("(", c.N) + "MIT", list
	case "plus-run":
		return "MIT" + strings.Repeat("+", c.N), list
	case "with-run":
		return "MIT" + strings.Repeat(" WITH", c.N), list
	case "colon-run":
		return "DocumentRef-a" + strings.Repeat(":", c.N) + "LicenseRef-b", list
	case "junk-bytes":
		return strings.Repeat("\xff\x00é(", c.N), list
	case "operators-only":
		return strings.Repeat("AND OR ", c.N), list
	}
	panic("unknown size family " + c.Family)
}

func checkC03Size(c SizeCase) Outcome {
	expr, list := buildSize(c)
	key := fmt.Sprintf("C03/panic/size/%s/%d", c.Family, c.N)
	if r := Validate(append([]string{expr}, list...)); r.Panic != "" {
		return fail(key, "ValidateLicenses panicked on family %s n=%d: %s", c.Family, c.N, r.Panic)
	}
	if r := Extract(expr); r.Panic != "" {
		return fail(key, "ExtractLicenses panicked on family %s n=%d: %s", c.Family, c.N, r.Panic)
	}
	if r := Satisfies(expr, list); r.Panic != "" {
		return fail(key, "Satisfies panicked on family %s n=%d: %s", c.Family, c.N, r.Panic)
	}
	if len(expr) < 1<<16 {
		if r := Satisfies("MIT", []string{expr}); r.Panic != "" {
			return fail(key, "Satisfies panicked with family %s n=%d as allowed entry: %s", c.Family, c.N, r.Panic)
		}
	}
	return pass()
}

// TestC03_Sizes: very long and very deeply nested inputs. A fatal error (stack exhaustion) cannot
// be recovered, so the case is journalled before it runs and the driver turns a dead process into
// a violation with that case as the replay.
func TestC03_Sizes(t *testing.T) {
	cfg := Cfg()
	rec := NewRecorder("C03", "sizes", "deterministic size families (AND/OR chains, nesting, unbalanced parenthesis runs, '+' / WITH / ':' runs, -or-later rewrite chains, megabyte ids and reference names, long space runs, long allowed lists, junk bytes), n doubling up to the tier's limit, through all three entry points under recover(); the case is journalled first so that a fatal error is attributed; non-trivial = n >= 1000; distinct by (family, n)")
	defer rec.Finish(t)
	type fam struct {
		name   string
		qMax   int
		thMax  int
		start  int
	}
	fams := []fam{
		{"and-chain", 4000, 100000, 500}, {"or-chain", 4000, 100000, 500}, {"nesting", 10000, 200000, 1000},
		{"alternating-nest", 4000, 100000, 500}, {"left-nested-and", 4000, 100000, 500}, {"and-of-2ors", 2000, 50000, 500},
		{"or-later-rewrites", 1000, 8000, 250}, {"long-id", 1 << 20, 1 << 22, 1 << 16}, {"long-ref", 1 << 20, 1 << 22, 1 << 16},
		{"spaces", 100000, 1 << 21, 25000}, {"long-list", 10000, 100000, 2500}, {"refs-or", 4000, 50000, 500},
		{"open-parens", 10000, 200000, 1000}, {"close-parens", 10000, 200000, 1000}, {"unclosed-nesting", 10000, 200000, 1000},
		{"plus-run", 10000, 1 << 20, 1000}, {"with-run", 10000, 200000, 1000}, {"colon-run", 10000, 200000, 1000},
		{"junk-bytes", 10000, 1 << 18, 1000}, {"operators-only", 10000, 200000, 1000},
	}
	for _, f := range fams {
		max := f.qMax
		if cfg.Thorough() {
			max = f.thMax
		}
		for n := f.start; n <= max; n *= 2 {
			c := SizeCase{Family: f.name, N: n}
			if cfg.Out != "" {
				raw, _ := json.Marshal(c)
				j, _ := json.Marshal(Violation{Check: "c03-size", Key: fmt.Sprintf("C03/fatal/size/%s/%d", f.name, n), Msg: fmt.Sprintf("the process died (fatal error) on size family %s n=%d", f.name, n), Case: raw})
				os.WriteFile("journal.json", j, 0o644)
			}
			t0 := time.Now()
			out := checkC03Size(c)
			slow := time.Since(t0) > 30*time.Second
			rec.Case(n >= 1000, fmt.Sprintf("%s/%d", f.name, n), map[string]any{"family": f.name, "n": n}, "family-"+f.name)
			rec.Count(3)
			if !out.OK {
				rec.Violate("c03-size", out.Key, out.Msg, c)
				break
			}
			if slow {
				rec.Note("family %s not escalated beyond n=%d: the case took %v (cost is C14's subject)", f.name, n, time.Since(t0).Round(time.Second))
				break
			}
		}
	}
	os.Remove("journal.json")
}

// TestC03_DeepChild is the child half of TestC03_StackLimit: it parses VERIF_DEEP levels of nesting.
func TestC03_DeepChild(t *testing.T) {
	n, _ := strconv.Atoi(os.Getenv("VERIF_DEEP"))
	if n == 0 {
		t.Skip("VERIF_DEEP not set")
	}
	expr := strings.Repeat("(", n) + "MIT" + strings.Repeat(")", n)
	r := Validate([]string{expr})
	fmt.Printf("DEEP-RESULT n=%d valid=%v panic=%q\n", n, r.Valid, firstN(r.Panic, 80))
}

// TestC03_StackLimit (thorough): re-confirms, in a child process, where unbounded recursion ends.
// Depths up to 2*10^5 are part of the explored domain (TestC03_Sizes); beyond that the recorded
// known finding C03/stack-overflow/nesting is re-confirmed and any other outcome is only noted.
func TestC03_StackLimit(t *testing.T) {
	rec := NewRecorder("C03", "stack-limit", "child process parsing '('*n MIT ')'*n for n in {400000, 3000000}: re-confirms the recorded finding that recursion depth is proportional to nesting depth (fatal stack overflow at about 3 million levels); non-trivial = every n; distinct by n")
	defer rec.Finish(t)
	for _, n := range []int{400000, 3000000} {
		cmd := exec.Command(os.Args[0], "-test.run", "^TestC03_DeepChild$", "-test.count=1", "-test.timeout=1200s")
		cmd.Env = append(os.Environ(), fmt.Sprintf("VERIF_DEEP=%d", n), "VERIF_OUT=")
		out, err := cmd.CombinedOutput()
		s := string(out)
		rec.Case(true, fmt.Sprintf("deep/%d", n), map[string]any{"nesting": n, "child_ok": err == nil}, "deep-child")
		switch {
		case err == nil && strings.Contains(s, "DEEP-RESULT"):
			rec.Note("nesting %d: parsed without a fatal error", n)
		case strings.Contains(s, "stack overflow") || strings.Contains(s, "goroutine stack exceeds"):
			rec.Violate("c03-deep", fmt.Sprintf("C03/stack-overflow/nesting-%d", n),
				fmt.Sprintf("'('x%d MIT ')'x%d kills the process: fatal error: stack overflow (recursion depth is proportional to nesting depth)\n%s", n, n, firstN(s, 600)), SizeCase{Family: "nesting", N: n})
		default:
			rec.Violate("c03-deep", fmt.Sprintf("C03/child-died/nesting-%d", n), fmt.Sprintf("child process failed: %v\n%s", err, firstN(s, 1500)), SizeCase{Family: "nesting", N: n})
		}
	}
}

func init() {
	registerReplay("c03-deep", func(c SizeCase) Outcome {
		cmd := exec.Command(os.Args[0], "-test.run", "^TestC03_DeepChild$", "-test.count=1", "-test.timeout=1200s")
		cmd.Env = append(os.Environ(), fmt.Sprintf("VERIF_DEEP=%d", c.N), "VERIF_REPLAY=")
		out, err := cmd.CombinedOutput()
		if err == nil {
			return pass()
		}
		return fail(fmt.Sprintf("C03/stack-overflow/nesting-%d", c.N), "child died: %v\n%s", err, firstN(string(out), 800))
	})
}

func init() { registerReplay("c03-pair", checkC03Pair) }

// checkC03Pair: comparing two terms never panics (either way round, alone and next to a distractor).
func checkC03Pair(c PairCase) Outcome {
	for _, call := range []struct {
		e string
		l []string
	}{{c.A.Text, []string{c.B.Text}}, {c.B.Text, []string{c.A.Text}}, {c.A.Text + " OR MIT", []string{"ISC", c.B.Text}}} {
		if r := Satisfies(call.e, call.l); r.Panic != "" {
			return fail("C03/panic/pair/"+c.A.Text+" | "+c.B.Text, "Satisfies(%q, %q) panicked: %s", call.e, call.l, r.Panic)
		}
	}
	return pass()
}

// TestC03_Pairs: the version comparison is only reached by two related terms, so related terms are
// enumerated: every pair of listed ids that share a name stem (inside or outside the family table)
// x {plain, +} on both sides.
func TestC03_Pairs(t *testing.T) {
	rec := NewRecorder("C03", "pairs", "EVERY ordered pair of listed license ids sharing a name stem (in or out of the family table) x {plain,+} on both sides, plus every id against itself with '+': Satisfies either way round and next to a distractor, under recover(); oracle: no panic; non-trivial = different ids; distinct by pair")
	rec.Exhaustive = true
	defer rec.Finish(t)
	tb := Tbl()
	byStem := map[string][]string{}
	for _, id := range tb.AllLic {
		stem := id
		if v := ParseVer(id); v.OK {
			stem = v.Stem
		} else if i := strings.Index(id, "-"); i > 0 {
			stem = id[:i]
		}
		byStem[stem] = append(byStem[stem], id)
	}
	var jobs []PairCase
	for _, group := range byStem {
		if len(group) > 40 {
			group = group[:40]
		}
		for _, x := range group {
			for _, y := range group {
				for _, fx := range []string{"", "+"} {
					for _, fy := range []string{"", "+"} {
						jobs = append(jobs, PairCase{A: tb.MakeLicTerm(x, fx, 0, "", 0, "", ""), B: tb.MakeLicTerm(y, fy, 0, "", 0, "", "")})
					}
				}
			}
		}
	}
	parallelFor(len(jobs), func(i int) {
		out := checkC03Pair(jobs[i])
		rec.Case(jobs[i].A.Base != jobs[i].B.Base, jobs[i].A.Text+"|"+jobs[i].B.Text, jobs[i].A.Text+" | "+jobs[i].B.Text)
		rec.Count(2)
		if !out.OK {
			rec.Violate("c03-pair", out.Key, out.Msg, jobs[i])
		}
	})
}

// TestC03_Tails: every token sequence of length <= 3 over the 18-class alphabet appended to a few
// short valid and half-finished prefixes — the places where a parser runs off the end of its tokens.
func TestC03_Tails(t *testing.T) {
	rec := NewRecorder("C03", "tails", "ALL token sequences of length 0..3 over one representative per token class (18 classes) appended to each of 8 short prefixes (a term, an open group, a conjunction, a dangling WITH, a '+', a DocumentRef with its colon, two adjacent terms, a complete WITH term); every entry point under recover(); oracle: no panic; non-trivial = every case; distinct by text")
	rec.Exhaustive = true
	defer rec.Finish(t)
	reps := alphabetReps()
	prefixes := [][]Tok{
		{{kLIC, "MIT"}},
		{{kLP, "("}, {kLIC, "MIT"}},
		{{kLIC, "MIT"}, {kAND, "AND"}, {kLIC, "ISC"}},
		{{kLIC, "MIT"}, {kWITH, "WITH"}},
		{{kLIC, "GPL-2.0"}, {kPLUS, "+"}},
		{{kDREF, "DocumentRef-d"}, {kCOLON, ":"}},
		{{kLIC, "MIT"}, {kLIC, "ISC"}},
		{{kLIC, "GPL-2.0-only"}, {kWITH, "WITH"}, {kEXC, "Classpath-exception-2.0"}},
	}
	var tails [][]Tok
	tails = append(tails, nil)
	for _, a := range reps {
		tails = append(tails, []Tok{a})
		for _, b := range reps {
			tails = append(tails, []Tok{a, b})
			for _, c := range reps {
				tails = append(tails, []Tok{a, b, c})
			}
		}
	}
	shallowProbe = true
	defer func() { shallowProbe = false }()
	parallelFor(len(prefixes)*len(tails), func(i int) {
		toks := append(append([]Tok{}, prefixes[i/len(tails)]...), tails[i%len(tails)]...)
		s := RenderToks(toks, &Spacer{tape: []int{0}})
		c := mkStr(s)
		out := checkC03String(c)
		rec.Case(true, s, s, "tail")
		if !out.OK {
			rec.Violate("c03-string", out.Key, out.Msg, c)
		}
	})
}
