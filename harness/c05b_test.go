package harness

import (
	"fmt"
	"strings"
	"sync/atomic"
	"testing"

	"pgregory.net/rapid"
)

// SeqCase: strings validated one after the other in the same process, each with the verdict the
// grammar gives it. Confusable neighbours of one expression (other whitespace, operator case,
// padding, id case) follow each other, in both orders, so that a verdict that leaks from one
// string to a similar one (a lossy cache or normalisation key) is seen.
type SeqStep struct {
	S    StrCase `json:"s"`
	Want bool    `json:"want"`
	Why  string  `json:"why"`
}

type SeqCase struct {
	Steps []SeqStep `json:"steps"`
}

func init() { registerReplay("c05-sequence", checkC05Seq) }

var nonce atomic.Int64

func checkC05Seq(c SeqCase) Outcome {
	for i, st := range c.Steps {
		s := st.S.S()
		got, p := Valid1(s)
		if p != "" {
			return fail("C05/panic/"+shortKey(s), "ValidateLicenses({%s}) panicked: %s", shortKey(s), p)
		}
		if got != st.Want {
			verb := "reject"
			if got {
				verb = "accept"
			}
			var before []string
			for _, b := range c.Steps[:i] {
				before = append(before, fmt.Sprintf("%q", b.S.S()))
			}
			return fail("C05/"+verb+"/"+shortKey(s), "ValidateLicenses({%q}) says valid=%v, the grammar says %v (%s); validated earlier in this process: [%s]", s, got, st.Want, st.Why, strings.Join(before, ", "))
		}
	}
	return pass()
}

var foreignSeps = []string{"\t", "\n", "\r", "\v", "\f", " ", " ", "\r\n", " \t", "\x00", "_", ",", ";", "/"}

func TestC05_Confusables(t *testing.T) {
	rec := NewRecorder("C05", "confusables", "for a rapid-generated token sequence (valid tree, or a tree with one token edit) its confusable neighbours are validated right after it, or right before it: a separator replaced / a byte appended from {tab, LF, CR, VT, FF, NBSP, EM SPACE, NUL, '_', ',', ';', '/'} (never in the language: no token contains such a byte), operators in lower or mixed case (reference recogniser), leading/trailing blanks and re-cased listed ids (same verdict as the original); oracle: every step gets the grammar's verdict whatever was validated before; non-trivial = the original is valid and the neighbour's verdict differs; distinct by the sequence")
	defer rec.Finish(t)
	tb := Tbl()
	rec.Rapid(t, func(rt *rapid.T) {
		excPool := tb.DrawExcPool(rt)
		pool := tb.DrawPool(rt, excPool)
		tree := DrawTree(rt, len(pool), 4, 8)
		toks := tree.Toks(pool)
		if rapid.IntRange(0, 4).Draw(rt, "edit") == 0 && len(toks) > 1 {
			pos := rapid.IntRange(0, len(toks)-1).Draw(rt, "editPos")
			toks = append(append([]Tok{}, toks[:pos]...), toks[pos+1:]...)
		}
		if tb.HasDoublePlusFold(toks) {
			rec.Exclude("known-finding-class C05/double-plus")
			return
		}
		// a reference name that no earlier execution in this process has used: whatever the library may
		// remember about strings it has seen, these strings are new to it, so a failure depends on the
		// steps of this case only and replays from a fresh process
		toks = append(append([]Tok{}, toks...), Tok{kAND, "AND"}, Tok{kLREF, fmt.Sprintf("LicenseRef-u%d", nonce.Add(1))})
		base, _, _ := Recognise(toks)
		tape := DrawSpacer(rt).tape
		orig := RenderToks(toks, &Spacer{tape: tape})
		var v SeqStep
		kind := rapid.SampledFrom([]string{"foreign-separator", "foreign-separator", "foreign-append", "operator-case", "padding", "id-case"}).Draw(rt, "variant")
		switch kind {
		case "foreign-separator":
			sep := rapid.SampledFrom(foreignSeps).Draw(rt, "sep")
			idx := []int{}
			for i := 0; i < len(orig); i++ {
				if orig[i] == ' ' {
					idx = append(idx, i)
				}
			}
			if len(idx) == 0 {
				v = SeqStep{mkStr(orig + sep), false, "a byte outside every token and the blank"}
				break
			}
			at := rapid.SampledFrom(idx).Draw(rt, "sepAt")
			v = SeqStep{mkStr(orig[:at] + sep + orig[at+1:]), false, "a separator that is not a blank; no token contains such a byte"}
		case "foreign-append":
			sep := rapid.SampledFrom(foreignSeps).Draw(rt, "app")
			if rapid.Bool().Draw(rt, "front") {
				v = SeqStep{mkStr(sep + orig), false, "a leading byte outside every token and the blank"}
			} else {
				v = SeqStep{mkStr(orig + sep), false, "a trailing byte outside every token and the blank"}
			}
		case "operator-case":
			t2 := append([]Tok{}, toks...)
			changed := false
			for i, tk := range t2 {
				if (tk.K == kAND || tk.K == kOR || tk.K == kWITH) && (!changed || rapid.Bool().Draw(rt, fmt.Sprintf("oc%d", i))) {
					low := strings.ToLower(tk.T)
					if rapid.Bool().Draw(rt, fmt.Sprintf("ocMixed%d", i)) {
						low = strings.ToUpper(low[:1]) + low[1:]
					}
					t2[i] = Tok{kLOWOP, low}
					changed = true
				}
			}
			acc, _, _ := Recognise(t2)
			v = SeqStep{mkStr(RenderToks(t2, &Spacer{tape: tape})), acc && changed || (!changed && base), "operators must be upper case"}
		case "padding":
			v = SeqStep{mkStr(drawSpaces(rt, "padL", 0, 4) + orig + drawSpaces(rt, "padR", 0, 4)), base, "surrounding blanks do not matter"}
		default:
			t2 := append([]Tok{}, toks...)
			for i, tk := range t2 {
				if tk.K == kLIC || tk.K == kEXC {
					// re-case only the listed part (a synthesised suffix stays as it is)
					suffix := ""
					body := tk.T
					for _, suf := range []string{"-or-later", "-only"} {
						if strings.HasSuffix(body, suf) && !tb.IsListedAny(body) {
							suffix, body = suf, strings.TrimSuffix(body, suf)
						}
					}
					t2[i] = Tok{tk.K, recase(body, 1+drawCase(rt, fmt.Sprintf("ic%d", i))) + suffix}
				}
			}
			v = SeqStep{mkStr(RenderToks(t2, &Spacer{tape: tape})), base, "letter case of listed ids does not matter"}
		}
		o := SeqStep{mkStr(orig), base, "reference recogniser over the generated tokens"}
		var c SeqCase
		order := "original-first"
		if rapid.Bool().Draw(rt, "variantFirst") {
			c.Steps, order = []SeqStep{v, o, v}, "variant-first"
		} else {
			c.Steps = []SeqStep{o, v, o}
		}
		out := checkC05Seq(c)
		rec.Case(base && v.Want != base, orig+"\x00"+v.S.S()+order, map[string]any{"original": orig, "variant": v.S.Text, "variant_valid": v.Want, "order": order}, "variant-"+kind, order)
		if !out.OK {
			rec.Fail(rt, "c05-sequence", out.Key, out.Msg, c)
		}
	})
}
