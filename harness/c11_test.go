package harness

import (
	"fmt"
	"sort"
	"strings"
	"sync"
	"testing"
)

type StructCase struct {
	Key string `json:"key"`
}

type VerPairCase struct {
	X  string `json:"x"`
	PX bool   `json:"px"` // '+' appended to x
	Y  string `json:"y"`
	PY bool   `json:"py"`
	// Want: expected verdict; Why explains it
	Cross bool `json:"cross"` // ids of different families: must never match
	// Ctx: "" = Satisfies(y, {x}); "long-list" = x sits among 40 unrelated entries; "long-expression" =
	// y is one of 10 conjuncts, the other nine being on the list
	Ctx string `json:"ctx,omitempty"`
}

func init() {
	registerReplay("c11-structure", func(c StructCase) Outcome {
		for _, v := range c11Structure(Tbl()) {
			if v.Key == c.Key {
				return Outcome{Key: v.Key, Msg: v.Msg}
			}
		}
		return pass()
	})
	registerReplay("c11-pair", checkC11Pair)
}

// scannable listed ids of a table family, unique, in table order
func famIDs(tb *Tables, fam [][]string) []string {
	var ids []string
	seen := map[string]bool{}
	for _, grp := range fam {
		for _, id := range grp {
			if idShaped(id) && tb.IsListedLicense(id) && !seen[id] {
				seen[id] = true
				ids = append(ids, id)
			}
		}
	}
	return ids
}

// c11Structure is the validity predicate over the shipped table (DESIGN.md C11.1).
func c11Structure(tb *Tables) []Outcome {
	var out []Outcome
	add := func(key, format string, a ...any) {
		out = append(out, Outcome{Key: key, Msg: fmt.Sprintf(format, a...)})
	}
	// every entry is a listed id
	for i, fam := range tb.Ranges {
		if len(fam) == 0 {
			add(fmt.Sprintf("C11/empty-family/%d", i), "family %d of LicenseRanges() is empty", i)
		}
		for j, grp := range fam {
			if len(grp) == 0 {
				add(fmt.Sprintf("C11/empty-group/%d/%d", i, j), "family %d group %d of LicenseRanges() is empty", i, j)
			}
			for _, id := range grp {
				listed := false
				for _, l := range tb.Active {
					listed = listed || l == id
				}
				for _, l := range tb.Deprecated {
					listed = listed || l == id
				}
				if !listed {
					add("C11/unlisted/"+id, "LicenseRanges() family %d group %d contains %q, which is not (case-exactly) on the active or deprecated list", i, j, id)
				}
			}
		}
	}
	// exactly one position
	for _, id := range tb.DupIDs() {
		msg := fmt.Sprintf("%q sits at more than one position of LicenseRanges(): %v (family, group); the lookup only ever sees the first", id, tb.Positions(id))
		// behavioural demonstration against the real code: an id of the unreachable family
		ps := tb.Positions(id)
		last := ps[len(ps)-1]
		for _, grp := range tb.Ranges[last[0]] {
			for _, other := range grp {
				if other == id || tb.MultiPosition(other) || !idShaped(other) {
					continue
				}
				vo, vi := ParseVer(other), ParseVer(id)
				if vo.OK && vi.OK && CmpVer(vo, vi) > 0 {
					r := Satisfies(other, []string{id + "+"})
					msg += fmt.Sprintf("; Satisfies(%q, {%q}) = %s although both are listed in family %d with %s later", other, id+"+", r, last[0], other)
				}
			}
		}
		add("C11/dup/"+id, "%s", msg)
	}
	// ascending natural versions, one version per group
	covered := map[string]int{} // named family stem -> table family index
	for i, fam := range tb.Ranges {
		var prev Ver
		havePrev := false
		for j, grp := range fam {
			var gv Ver
			haveG := false
			for _, id := range grp {
				if strings.HasSuffix(id, "-or-later") {
					continue // never consulted: the lookup strips -or-later first
				}
				v := ParseVer(id)
				if !v.OK {
					add(fmt.Sprintf("C11/unversioned/%s", id), "family %d group %d: %q has no recognisable version number", i, j, id)
					continue
				}
				if v.Tail == "" {
					if fi, ok := covered[v.Stem]; ok && fi != i && !tb.MultiPosition(id) {
						add(fmt.Sprintf("C11/split-family/%s", v.Stem), "the %s-<version> family is spread over table families %d and %d", v.Stem, fi, i)
					} else if !ok {
						covered[v.Stem] = i
					}
				}
				if haveG && CmpVer(v, gv) != 0 {
					add(fmt.Sprintf("C11/order/%d/%d", i, j), "family %d group %d mixes versions: %v", i, j, grp)
				}
				gv, haveG = v, true
			}
			if haveG {
				if havePrev && CmpVer(gv, prev) <= 0 {
					add(fmt.Sprintf("C11/order/%d/%d", i, j), "family %d is not in ascending version order at group %d: %v follows %v", i, j, grp, fam[j-1])
				}
				prev, havePrev = gv, true
			}
		}
	}
	// completeness: every listed plain / -only id of a covered named family is in the table
	for _, id := range tb.AllLic {
		if strings.HasSuffix(id, "-or-later") {
			continue
		}
		v := ParseVer(id)
		if !v.OK || v.Tail != "" {
			continue
		}
		fi, ok := covered[v.Stem]
		if !ok || len(tb.Positions(id)) > 0 {
			continue
		}
		msg := fmt.Sprintf("%q is listed and belongs to the %s-<version> family that table family %d covers, but it is not in LicenseRanges()", id, v.Stem, fi)
		for _, other := range famIDs(tb, tb.Ranges[fi]) {
			vo := ParseVer(other)
			if vo.OK && vo.Tail == "" && !strings.HasSuffix(other, "-or-later") && CmpVer(vo, v) <= 0 {
				r := Satisfies(id, []string{other + "+"})
				msg += fmt.Sprintf("; Satisfies(%q, {%q}) = %s", id, other+"+", r)
				break
			}
		}
		add("C11/missing/"+id, "%s", msg)
	}
	if d := tb.FreshTablesDiffer(); d != "" {
		add("C11/table-aliasing", "a caller edited the values LicenseRanges()/GetLicenses()/GetDeprecated()/GetExceptions() had returned to it, and the next call returns something else: %s (the tables must not share storage with their callers)", d)
	}
	sort.Slice(out, func(i, j int) bool { return out[i].Key < out[j].Key })
	return out
}

func effPlus(id string, plus bool) bool { return plus || strings.HasSuffix(id, "-or-later") }

func spell(id string, plus bool) string {
	if plus {
		return id + "+"
	}
	return id
}

// checkC11Pair: behaviour of one ordered pair against the natural version order.
func checkC11Pair(c VerPairCase) Outcome {
	tb := Tbl()
	a, b := spell(c.Y, c.PY), spell(c.X, c.PX)
	expr, list := a, []string{b}
	switch c.Ctx {
	case "long-list":
		list = nil
		pad := c11Padding(tb, 40)
		at := int(hash64(a+b) % uint64(len(pad)+1))
		list = append(append(append(list, pad[:at]...), b), pad[at:]...)
	case "long-expression-both": // y+ and y in one ten-term conjunction: each keeps its own verdict
		pad := c11Padding(tb, 8)
		terms := append(append([]string{c.Y + "+"}, pad...), c.Y)
		expr = strings.Join(terms, " AND ")
		list = append(append([]string{}, pad...), b)
	case "long-expression":
		pad := c11Padding(tb, 9)
		at := int(hash64(b+a) % uint64(len(pad)+1))
		terms := append(append(append([]string{}, pad[:at]...), a), pad[at:]...)
		expr = strings.Join(terms, " AND ")
		list = append(append([]string{}, pad...), b)
	}
	r := Satisfies(expr, list)
	key := fmt.Sprintf("C11/behaviour/%s | %s", a, b)
	if c.Ctx != "" {
		key += " | " + c.Ctx
	}
	// A failure is charged to the recorded "id at two positions" finding only when it is the one
	// that finding describes: the other id sits in a family that the first-match lookup can never
	// reach for the duplicated id. Anything else involving such an id is an ordinary violation.
	for _, pair := range [][2]string{{c.X, c.Y}, {c.Y, c.X}} {
		id, other := pair[0], pair[1]
		if !tb.MultiPosition(id) {
			continue
		}
		first := tb.Positions(id)[0][0]
		reachable := false
		for _, p := range tb.Positions(other) {
			reachable = reachable || p[0] == first
		}
		if !reachable {
			key = "C11/dup/" + strings.TrimSuffix(id, "-or-later")
		}
	}
	if r.Panic != "" || r.IsErr {
		return fail(key, "Satisfies(%q, %q) = %s for valid listed ids", expr, list, r)
	}
	var want bool
	var why string
	if c.Ctx == "long-expression-both" && !c.Cross {
		w1, _ := naturalWant(c.X, c.PX, c.Y, true)
		w2, y2 := naturalWant(c.X, c.PX, c.Y, false)
		if r.OK != (w1 && w2) {
			return fail(key, "Satisfies(%q, %q) = %v, expected %v: %q alone gives %v and %q alone gives %v (%s)", expr, list, r.OK, w1 && w2, c.Y+"+", w1, c.Y, w2, y2)
		}
		return pass()
	}
	if c.Cross {
		want, why = false, "ids of different families never match, with or without '+'"
	} else {
		want, why = naturalWant(c.X, c.PX, c.Y, c.PY)
	}
	if r.OK != want {
		return fail(key, "Satisfies(%q, %q) = %v, expected %v: %s", expr, list, r.OK, want, why)
	}
	return pass()
}

// naturalWant: does y (with '+' iff py) match the allowed entry x (with '+' iff px), by the natural
// order of the version numbers in the ids?
func naturalWant(x string, px bool, y string, py bool) (bool, string) {
	vx, vy := ParseVer(x), ParseVer(y)
	ex, ey := effPlus(x, px), effPlus(y, py)
	cmp := CmpVer(vy, vx)
	switch {
	case ex && ey:
		return true, "both allow later versions of the same family"
	case ex:
		return cmp >= 0, fmt.Sprintf("%s allows the same or later versions; %s is %s", spell(x, px), y, cmpWord(cmp))
	case ey:
		return cmp <= 0, fmt.Sprintf("%s allows the same or later versions; %s is %s than %s", spell(y, py), x, cmpWord(-cmp), y)
	}
	return cmp == 0, "without '+' only equal versions match"
}

// c11Padding: n listed ids that sit in no family (neutral company for a pair under test).
var c11PadCache sync.Map // n -> []string (read-only once stored)

func c11Padding(tb *Tables, n int) []string {
	if v, ok := c11PadCache.Load(n); ok {
		return v.([]string)
	}
	out := c11PaddingBuild(tb, n)
	c11PadCache.Store(n, out)
	return out
}

func c11PaddingBuild(tb *Tables, n int) []string {
	var out []string
	for _, id := range tb.Active {
		if idShaped(id) && len(tb.Positions(id)) == 0 && !ParseVer(id).OK {
			out = append(out, id)
			if len(out) == n {
				break
			}
		}
	}
	return out
}

func cmpWord(c int) string {
	switch {
	case c < 0:
		return "earlier"
	case c > 0:
		return "later"
	}
	return "the same version"
}

func TestC11_Structure(t *testing.T) {
	rec := NewRecorder("C11", "structure", "validity predicate over the whole shipped table: every entry a listed id, one position per id, natural versions strictly ascending group by group with one version per group, every listed plain/-only id of a covered stem-<version> family present; one case per table entry; non-trivial = every entry; distinct by id")
	rec.Exhaustive = true
	defer rec.Finish(t)
	tb := Tbl()
	for i, fam := range tb.Ranges {
		for j, grp := range fam {
			for _, id := range grp {
				rec.Case(true, fmt.Sprintf("%d/%d/%s", i, j, id), fmt.Sprintf("family %d group %d: %s", i, j, id), "table-entry")
			}
		}
	}
	for _, id := range tb.AllLic {
		if v := ParseVer(id); v.OK && v.Tail == "" {
			rec.Case(true, "listed/"+id, "listed versioned id "+id, "listed-versioned-id")
		}
	}
	for _, v := range c11Structure(tb) {
		rec.Violate("c11-structure", v.Key, v.Msg, StructCase{Key: v.Key})
	}
}

func TestC11_InFamily(t *testing.T) {
	rec := NewRecorder("C11", "in-family", "EVERY ordered pair (x,y) of ids of every table family x '+' on either side x context {alone, x among 40 unrelated allowed entries, y among 10 conjuncts}: Satisfies vs the natural order of the version numbers parsed from the ids (not the table index); non-trivial = different ids; distinct by (x,y,+,+)")
	rec.Exhaustive = true
	defer rec.Finish(t)
	tb := Tbl()
	var jobs []VerPairCase
	for _, fam := range tb.Ranges {
		ids := famIDs(tb, fam)
		for _, x := range ids {
			for _, y := range ids {
				if !ParseVer(x).OK || !ParseVer(y).OK {
					rec.Exclude("id without a parsable version")
					continue
				}
				for _, px := range []bool{false, true} {
					for _, py := range []bool{false, true} {
						jobs = append(jobs, VerPairCase{X: x, PX: px, Y: y, PY: py},
							VerPairCase{X: x, PX: px, Y: y, PY: py, Ctx: "long-list"}, VerPairCase{X: x, PX: px, Y: y, PY: py, Ctx: "long-expression"})
						if !py && !strings.HasSuffix(y, "-or-later") {
							jobs = append(jobs, VerPairCase{X: x, PX: px, Y: y, Ctx: "long-expression-both"})
						}
					}
				}
			}
		}
	}
	parallelFor(len(jobs), func(i int) {
		c := jobs[i]
		out := checkC11Pair(c)
		cls := "same-version"
		if cmp := CmpVer(ParseVer(c.Y), ParseVer(c.X)); cmp > 0 {
			cls = "y-later"
		} else if cmp < 0 {
			cls = "y-earlier"
		}
		rec.Case(c.X != c.Y, fmt.Sprintf("%s|%s|%s", spell(c.Y, c.PY), spell(c.X, c.PX), c.Ctx), fmt.Sprintf("Satisfies(%q,{%q}) %s", spell(c.Y, c.PY), spell(c.X, c.PX), c.Ctx), cls, "ctx-"+c.Ctx)
		if !out.OK {
			rec.Violate("c11-pair", out.Key, out.Msg, c)
		}
	})
}

func TestC11_CrossFamily(t *testing.T) {
	rec := NewRecorder("C11", "cross-family", "every table id x against EVERY listed id y outside x's table family and outside x's stem: Satisfies(y,{x+}), Satisfies(y+,{x}), Satisfies(y+,{x+}) must all be false; non-trivial = every pair; distinct by (x,y,+,+)")
	rec.Exhaustive = true
	defer rec.Finish(t)
	tb := Tbl()
	var jobs []VerPairCase
	for fi, fam := range tb.Ranges {
		inFam := map[string]bool{}
		for _, id := range famIDs(tb, fam) {
			inFam[id] = true
		}
		for _, x := range famIDs(tb, fam) {
			if ps := tb.Positions(x); len(ps) > 0 && ps[0][0] != fi {
				continue // visited with its first family
			}
			sx := ParseVer(x).Stem
			for _, y := range tb.AllLic {
				if inFam[y] {
					continue
				}
				if vy := ParseVer(y); vy.OK && vy.Stem == sx {
					rec.Exclude("same stem outside the table family (family membership not decidable from the id)")
					continue
				}
				same := false
				for _, p := range tb.Positions(y) {
					for _, q := range tb.Positions(x) {
						same = same || p[0] == q[0]
					}
				}
				if same {
					continue
				}
				jobs = append(jobs, VerPairCase{X: x, PX: true, Y: y, PY: false, Cross: true},
					VerPairCase{X: x, PX: false, Y: y, PY: true, Cross: true}, VerPairCase{X: x, PX: true, Y: y, PY: true, Cross: true})
			}
		}
	}
	parallelFor(len(jobs), func(i int) {
		c := jobs[i]
		out := checkC11Pair(c)
		cls := "y-unversioned"
		if len(tb.Positions(c.Y)) > 0 {
			cls = "y-in-other-table-family"
		}
		rec.Case(true, fmt.Sprintf("%s|%s", spell(c.Y, c.PY), spell(c.X, c.PX)), fmt.Sprintf("Satisfies(%q,{%q})", spell(c.Y, c.PY), spell(c.X, c.PX)), cls)
		if !out.OK {
			rec.Violate("c11-pair", out.Key, out.Msg, c)
		}
	})
}
