package harness

import (
	"fmt"
	"strings"
	"testing"

	"pgregory.net/rapid"
)

// TestC01_Wide: expressions with many DISTINCT terms (up to 300), flat or in blocks, where one
// term at a generated position decides the verdict — sizes at which per-call tables, bit sets or
// indexes inside an implementation overflow or switch strategy.
func TestC01_Wide(t *testing.T) {
	rec := NewRecorder("C01", "wide", "rapid-generated expressions over 2-300 distinct listed ids: a flat OR or AND chain, or an OR of AND blocks / AND of OR blocks, with an allowed list chosen so that ONE term (OR) or one missing term (AND) at a generated position decides; oracle: the reference model (documented matching rules + Boolean evaluation of the generated tree), and for <= 24 terms also the per-entry truth oracle of the tree check; non-trivial = >= 20 distinct terms; distinct by (expr, allowed)")
	defer rec.Finish(t)
	tb := Tbl()
	var ids []string
	for _, id := range tb.Active {
		if idShaped(id) && len(tb.Positions(id)) == 0 && !strings.HasSuffix(id, "-only") && !strings.HasSuffix(id, "-or-later") {
			ids = append(ids, id)
		}
	}
	rec.Rapid(t, func(rt *rapid.T) {
		n := rapid.SampledFrom([]int{2, 3, 5, 8, 15, 16, 17, 31, 32, 33, 63, 64, 65, 66, 100, 127, 128, 129, 200, 255, 256, 257, 300}).Draw(rt, "n")
		if rapid.Bool().Draw(rt, "anyN") {
			n = rapid.IntRange(2, 300).Draw(rt, "nAny")
		}
		op := rapid.SampledFrom([]string{"OR", "AND"}).Draw(rt, "op")
		shape := rapid.SampledFrom([]string{"flat", "flat", "blocks"}).Draw(rt, "shape")
		if (op == "AND" || shape == "blocks") && n > 66 {
			n = 63 + n%4 // these shapes need long allowed lists; the library's term x entry comparison is quadratic and slow
		}
		perm := rapid.Permutation(ids).Draw(rt, "ids")[:n]
		c := TreeCase{RefOnly: n > 24}
		for _, id := range perm {
			form := ""
			if rapid.IntRange(0, 9).Draw(rt, "plus"+id) == 0 {
				form = "+"
			}
			c.Pool = append(c.Pool, tb.MakeLicTerm(id, form, 0, "", 0, "", ""))
		}
		root := &Node{Op: op}
		if shape == "flat" {
			for i := range perm {
				root.Kids = append(root.Kids, leafNode(i))
			}
		} else {
			bs := rapid.IntRange(2, 5).Draw(rt, "blockSize")
			for i := 0; i < n; i += bs {
				blk := &Node{Op: dual(op)}
				for j := i; j < i+bs && j < n; j++ {
					blk.Kids = append(blk.Kids, leafNode(j))
				}
				blk.tidy()
				root.Kids = append(root.Kids, blk)
			}
		}
		root.tidy()
		c.Tree = root
		c.Expr = root.Render(Texts(c.Pool), &Spacer{tape: []int{0}})
		k := rapid.IntRange(0, n-1).Draw(rt, "decisive")
		switch {
		case op == "OR" && shape == "flat": // only term k is allowed
			c.AllowedTerms = []Term{tb.MakeLicTerm(perm[k], "", 0, "", 0, "", "")}
		case op == "AND" && shape == "flat": // everything but term k (sometimes everything)
			for i, id := range perm {
				if i != k || rapid.IntRange(0, 3).Draw(rt, "all") == 0 {
					c.AllowedTerms = append(c.AllowedTerms, tb.MakeLicTerm(id, "", 0, "", 0, "", ""))
				}
			}
		default: // blocks: a generated subset around the decisive block
			for i, id := range perm {
				if i/3 == k/3 || rapid.IntRange(0, 2).Draw(rt, fmt.Sprintf("sub%d", i)) == 0 {
					c.AllowedTerms = append(c.AllowedTerms, tb.MakeLicTerm(id, "", 0, "", 0, "", ""))
				}
			}
		}
		if len(c.AllowedTerms) == 0 {
			c.AllowedTerms = []Term{tb.MakeLicTerm("MIT", "", 0, "", 0, "", "")}
		}
		c.AllowedTerms = rapid.Permutation(c.AllowedTerms).Draw(rt, "listOrder")
		c.Allowed = Texts(c.AllowedTerms)
		out := checkC01(c)
		cls := fmt.Sprintf("%s-%s", shape, op)
		size := "n<20"
		switch {
		case n >= 128:
			size = "n>=128"
		case n >= 64:
			size = "n>=64"
		case n >= 20:
			size = "n>=20"
		}
		rec.Case(n >= 20, c.Expr+" | "+strings.Join(c.Allowed, ","), map[string]any{"distinct_terms": n, "shape": cls, "decisive_position": k, "expr_head": firstN(c.Expr, 80), "allowed_len": len(c.Allowed)}, cls, size)
		if !out.OK {
			rec.Fail(rt, "c01-boolean", out.Key, out.Msg, c)
		}
	})
}
