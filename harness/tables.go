// Package harness holds the property-based checks that decide C01..C15 for github/go-spdx.
// Everything here observes the library only through its exported API.
package harness

import (
	"fmt"
	"sort"
	"strings"
	"sync"

	"github.com/github/go-spdx/v2/spdxexp/spdxlicenses"
)

// Tables is a snapshot of the id tables shipped by the tree under test, plus indexes over them.
type Tables struct {
	Active, Deprecated, Exceptions []string
	Ranges                         [][][]string

	activeFold, deprecatedFold, exceptionFold map[string]string // lower -> listed spelling
	// pos: id -> every (family, version group) position where it occurs in Ranges
	pos map[string][][2]int
	// FamilyIDs: ids that occur in Ranges and scan as license ids (listed, no '+'), in table order, unique
	FamilyIDs []string
	// AllLic: active ∪ deprecated ids that the scanner can read (no '+' inside)
	AllLic []string
}

var (
	tablesOnce sync.Once
	tables     *Tables
)

// T returns the tables of the tree under test (read once per process).
func Tbl() *Tables {
	tablesOnce.Do(func() {
		t := &Tables{
			Active:     append([]string(nil), spdxlicenses.GetLicenses()...),
			Deprecated: append([]string(nil), spdxlicenses.GetDeprecated()...),
			Exceptions: append([]string(nil), spdxlicenses.GetExceptions()...),
		}
		for _, fam := range spdxlicenses.LicenseRanges() {
			var f [][]string
			for _, grp := range fam {
				f = append(f, append([]string(nil), grp...))
			}
			t.Ranges = append(t.Ranges, f)
		}
		// The returned values are the caller's to edit; a caller that does so must not change what the
		// library sees (checked by FreshTablesDiffer in C11/C12, and implicitly by every other check).
		scribble(spdxlicenses.GetLicenses())
		scribble(spdxlicenses.GetDeprecated())
		scribble(spdxlicenses.GetExceptions())
		lr := spdxlicenses.LicenseRanges()
		for _, fam := range lr {
			for _, grp := range fam {
				scribble(grp)
			}
			for i, j := 0, len(fam)-1; i < j; i, j = i+1, j-1 {
				fam[i], fam[j] = fam[j], fam[i]
			}
		}
		t.activeFold = foldMap(t.Active)
		t.deprecatedFold = foldMap(t.Deprecated)
		t.exceptionFold = foldMap(t.Exceptions)
		t.pos = map[string][][2]int{}
		seen := map[string]bool{}
		for i, fam := range t.Ranges {
			for j, grp := range fam {
				for _, id := range grp {
					t.pos[id] = append(t.pos[id], [2]int{i, j})
					if !seen[id] && !strings.Contains(id, "+") && t.IsListedLicense(id) {
						seen[id] = true
						t.FamilyIDs = append(t.FamilyIDs, id)
					}
				}
			}
		}
		for _, id := range t.Active {
			if idShaped(id) {
				t.AllLic = append(t.AllLic, id)
			}
		}
		for _, id := range t.Deprecated {
			if idShaped(id) {
				t.AllLic = append(t.AllLic, id)
			}
		}
		tables = t
	})
	return tables
}

func foldMap(ids []string) map[string]string {
	m := make(map[string]string, len(ids))
	for _, id := range ids {
		k := strings.ToLower(id)
		if _, dup := m[k]; !dup { // first entry wins, like the library's linear search
			m[k] = id
		}
	}
	return m
}

// idShaped reports whether s consists only of the bytes the scanner reads as one identifier.
func idShaped(s string) bool {
	if s == "" {
		return false
	}
	for i := 0; i < len(s); i++ {
		if !isIDByte(s[i]) {
			return false
		}
	}
	return true
}

func isIDByte(c byte) bool {
	return c >= 'a' && c <= 'z' || c >= 'A' && c <= 'Z' || c >= '0' && c <= '9' || c == '-' || c == '.'
}

func (t *Tables) ActiveID(s string) (string, bool) {
	v, ok := t.activeFold[strings.ToLower(s)]
	return v, ok
}
func (t *Tables) DeprecatedID(s string) (string, bool) {
	v, ok := t.deprecatedFold[strings.ToLower(s)]
	return v, ok
}
func (t *Tables) ExceptionID(s string) (string, bool) {
	v, ok := t.exceptionFold[strings.ToLower(s)]
	return v, ok
}
func (t *Tables) IsListedLicense(s string) bool {
	if _, ok := t.ActiveID(s); ok {
		return true
	}
	_, ok := t.DeprecatedID(s)
	return ok
}
func (t *Tables) IsListedAny(s string) bool {
	if t.IsListedLicense(s) {
		return true
	}
	_, ok := t.ExceptionID(s)
	return ok
}

// Positions returns every (family, group) position of id in the family table (exact, case-sensitive,
// exactly as the library looks it up after stripping a trailing "-or-later").
func (t *Tables) Positions(id string) [][2]int {
	return t.pos[strings.TrimSuffix(id, "-or-later")]
}

// MultiPosition reports whether the id's table position is ambiguous.
func (t *Tables) MultiPosition(id string) bool {
	ps := t.Positions(id)
	if len(ps) < 2 {
		return false
	}
	for _, p := range ps[1:] {
		if p != ps[0] {
			return true
		}
	}
	return false
}

// DupIDs returns the ids listed at more than one distinct position, sorted.
func (t *Tables) DupIDs() []string {
	var out []string
	for id := range t.pos {
		if t.MultiPosition(id) {
			out = append(out, id)
		}
	}
	sort.Strings(out)
	return out
}

// UnrelatedIDs is a fixed handful of ids that sit in no family; used as "noise" in lists.
func (t *Tables) UnrelatedIDs() []string {
	var out []string
	for _, id := range []string{"MIT", "ISC", "Zlib", "0BSD", "BSD-3-Clause", "Unlicense", "X11", "curl", "WTFPL", "NCSA"} {
		if _, ok := t.ActiveID(id); ok && len(t.Positions(id)) == 0 {
			out = append(out, id)
		}
	}
	if len(out) < 3 {
		for _, id := range t.Active {
			if idShaped(id) && len(t.Positions(id)) == 0 && !strings.HasSuffix(id, "-only") && !strings.HasSuffix(id, "-or-later") {
				out = append(out, id)
				if len(out) >= 8 {
					break
				}
			}
		}
	}
	return out
}

func scribble(ss []string) {
	for i := range ss {
		ss[i] = "SCRIBBLED-BY-CALLER"
	}
}

// FreshTablesDiffer re-reads the four tables and compares them with the snapshot taken before the
// harness (acting as a caller) edited the values it had been handed. "" = identical.
func (t *Tables) FreshTablesDiffer() string {
	cmp := func(name string, got, want []string) string {
		if len(got) != len(want) {
			return fmt.Sprintf("%s now has %d entries, had %d", name, len(got), len(want))
		}
		for i := range got {
			if got[i] != want[i] {
				return fmt.Sprintf("%s[%d] is now %q, was %q", name, i, got[i], want[i])
			}
		}
		return ""
	}
	if d := cmp("GetLicenses()", spdxlicenses.GetLicenses(), t.Active); d != "" {
		return d
	}
	if d := cmp("GetDeprecated()", spdxlicenses.GetDeprecated(), t.Deprecated); d != "" {
		return d
	}
	if d := cmp("GetExceptions()", spdxlicenses.GetExceptions(), t.Exceptions); d != "" {
		return d
	}
	fresh := spdxlicenses.LicenseRanges()
	if len(fresh) != len(t.Ranges) {
		return fmt.Sprintf("LicenseRanges() now has %d families, had %d", len(fresh), len(t.Ranges))
	}
	for i := range fresh {
		if len(fresh[i]) != len(t.Ranges[i]) {
			return fmt.Sprintf("LicenseRanges()[%d] now has %d groups, had %d", i, len(fresh[i]), len(t.Ranges[i]))
		}
		for j := range fresh[i] {
			if d := cmp(fmt.Sprintf("LicenseRanges()[%d][%d]", i, j), fresh[i][j], t.Ranges[i][j]); d != "" {
				return d
			}
		}
	}
	return ""
}
