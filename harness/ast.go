package harness

import (
	"fmt"
	"sort"
	"strings"

	"pgregory.net/rapid"
)

// ---------------------------------------------------------------------------------------------
// §3.2 Expression trees. The string handed to the library is rendered from the tree, so the
// intended Boolean structure is known without parsing anything.

type Node struct {
	Op    string  `json:"op,omitempty"`    // "AND" | "OR" | "" (leaf)
	Kids  []*Node `json:"kids,omitempty"`  // >= 2 for operator nodes
	Leaf  int     `json:"leaf"`            // index into the case's term pool (leaf)
	Paren int     `json:"paren,omitempty"` // redundant pairs of parentheses around this node
	Group string  `json:"group,omitempty"` // "flat" | "left" | "right": how a chain of kids is grouped
}

func (n *Node) IsLeaf() bool { return n.Op == "" }

func (n *Node) Leaves() int {
	if n.IsLeaf() {
		return 1
	}
	c := 0
	for _, k := range n.Kids {
		c += k.Leaves()
	}
	return c
}

func (n *Node) Depth() int {
	if n.IsLeaf() {
		return 0
	}
	d := 0
	for _, k := range n.Kids {
		if kd := k.Depth(); kd > d {
			d = kd
		}
	}
	return d + 1
}

// Alternatives is the size of the disjunctive normal form (capped), the cost driver of an
// implementation that expands the expression.
func (n *Node) Alternatives() int64 {
	const cap = 1 << 40
	if n.IsLeaf() {
		return 1
	}
	var r int64
	if n.Op == "OR" {
		for _, k := range n.Kids {
			r += k.Alternatives()
			if r > cap {
				return cap
			}
		}
		return r
	}
	r = 1
	for _, k := range n.Kids {
		r *= k.Alternatives()
		if r > cap {
			return cap
		}
	}
	return r
}

// Eval is the Boolean oracle: AND needs all kids, OR needs any.
func (n *Node) Eval(truth func(leaf int) bool) bool {
	if n.IsLeaf() {
		return truth(n.Leaf)
	}
	if n.Op == "AND" {
		for _, k := range n.Kids {
			if !k.Eval(truth) {
				return false
			}
		}
		return true
	}
	for _, k := range n.Kids {
		if k.Eval(truth) {
			return true
		}
	}
	return false
}

func (n *Node) LeafSet(into map[int]bool) {
	if n.IsLeaf() {
		into[n.Leaf] = true
		return
	}
	for _, k := range n.Kids {
		k.LeafSet(into)
	}
}

func (n *Node) Clone() *Node {
	c := *n
	c.Kids = nil
	for _, k := range n.Kids {
		c.Kids = append(c.Kids, k.Clone())
	}
	return &c
}

// Shape is a canonical structural signature (operators and leaf indexes, kids in order).
func (n *Node) Shape() string {
	if n.IsLeaf() {
		return fmt.Sprintf("%d", n.Leaf)
	}
	parts := make([]string, len(n.Kids))
	for i, k := range n.Kids {
		parts[i] = k.Shape()
	}
	op := "&"
	if n.Op == "OR" {
		op = "|"
	}
	return "(" + strings.Join(parts, op) + ")"
}

// Spacer hands out the runs of spaces used while rendering (generated values, cycled).
type Spacer struct {
	tape []int
	i    int
}

func (s *Spacer) next() int {
	if s == nil || len(s.tape) == 0 {
		return 0
	}
	v := s.tape[s.i%len(s.tape)]
	s.i++
	return v
}

// word returns a mandatory separator (1..3 spaces), opt an optional one (0..2 spaces).
func (s *Spacer) word() string { return strings.Repeat(" ", 1+s.next()%3) }
func (s *Spacer) opt() string {
	v := s.next()
	if v < 3 { // mostly tight
		return ""
	}
	return strings.Repeat(" ", v%3)
}

func DrawSpacer(rt *rapid.T) *Spacer {
	if rapid.IntRange(0, 2).Draw(rt, "spacing") == 0 {
		return &Spacer{tape: rapid.SliceOfN(rapid.IntRange(0, 8), 1, 12).Draw(rt, "spaceTape")}
	}
	return &Spacer{tape: []int{0}}
}

// Render produces the expression text. Parentheses: those precedence requires (an OR under an
// AND), those the grouping asks for, and Paren redundant pairs.
func (n *Node) Render(terms []string, sp *Spacer) string {
	return n.render(terms, sp, "")
}

func wrap(s string, sp *Spacer) string {
	return "(" + sp.opt() + s + sp.opt() + ")"
}

func (n *Node) render(terms []string, sp *Spacer, parentOp string) string {
	var s string
	if n.IsLeaf() {
		s = terms[n.Leaf]
	} else {
		parts := make([]string, len(n.Kids))
		for i, k := range n.Kids {
			parts[i] = k.render(terms, sp, n.Op)
		}
		join := func(a, b string) string { return a + sp.word() + n.Op + sp.word() + b }
		switch n.Group {
		case "left":
			s = parts[0]
			for i := 1; i < len(parts); i++ {
				if i > 1 {
					s = wrap(s, sp)
				}
				s = join(s, parts[i])
			}
		case "right":
			s = parts[len(parts)-1]
			for i := len(parts) - 2; i >= 0; i-- {
				if i < len(parts)-2 {
					s = wrap(s, sp)
				}
				s = join(parts[i], s)
			}
		default:
			s = parts[0]
			for i := 1; i < len(parts); i++ {
				s = join(s, parts[i])
			}
		}
		if n.Paren == 0 && parentOp == "AND" && n.Op == "OR" {
			s = wrap(s, sp) // required by precedence
		}
	}
	for i := 0; i < n.Paren; i++ {
		s = wrap(s, sp)
	}
	return s
}

// DrawTree draws an expression tree over nTerms pool entries: depth <= maxDepth, <= maxLeaves leaves.
func DrawTree(rt *rapid.T, nTerms, maxDepth, maxLeaves int) *Node {
	budget := maxLeaves
	var gen func(depth int, label string) *Node
	gen = func(depth int, label string) *Node {
		leaf := depth >= maxDepth || budget <= 1
		if !leaf && depth > 0 {
			leaf = rapid.IntRange(0, 9).Draw(rt, label+"isLeaf") < 3+depth
		}
		n := &Node{}
		if rapid.IntRange(0, 7).Draw(rt, label+"paren") == 0 {
			n.Paren = rapid.IntRange(1, 2).Draw(rt, label+"parenN")
		}
		if leaf {
			budget--
			n.Leaf = rapid.IntRange(0, nTerms-1).Draw(rt, label+"leaf")
			return n
		}
		n.Op = rapid.SampledFrom([]string{"AND", "OR"}).Draw(rt, label+"op")
		n.Group = rapid.SampledFrom([]string{"flat", "flat", "left", "right"}).Draw(rt, label+"group")
		k := rapid.IntRange(2, 4).Draw(rt, label+"kids")
		for i := 0; i < k; i++ {
			if i >= 2 && budget <= 0 {
				break
			}
			n.Kids = append(n.Kids, gen(depth+1, fmt.Sprintf("%s%d.", label, i)))
		}
		return n
	}
	return gen(0, "n")
}

// treeClasses names the structural classes a tree belongs to (tracked in the evidence).
func treeClasses(n *Node, pool []Term) []string {
	set := map[string]bool{}
	var walk func(n *Node, path []string)
	walk = func(n *Node, path []string) {
		if n.Paren > 0 {
			set["redundant-parens"] = true
		}
		if n.IsLeaf() {
			t := pool[n.Leaf]
			if t.Kind == "ref" {
				if len(path) > 0 && path[len(path)-1] == "OR" {
					set["ref-under-OR"] = true
				}
				if len(path) > 0 && path[len(path)-1] == "AND" {
					set["ref-under-AND"] = true
				}
				if t.Doc != "" {
					set["docref"] = true
				}
			} else {
				if t.Exc != "" {
					set["with-exception"] = true
				}
				if t.Plus {
					set["plus-term"] = true
				}
			}
			return
		}
		p := append(append([]string{}, path...), n.Op)
		if l := len(p); l >= 3 && p[l-1] == "OR" && p[l-2] == "AND" && p[l-3] == "OR" {
			set["OR-under-AND-under-OR"] = true
		}
		if l := len(p); l >= 2 && p[l-1] == "AND" && p[l-2] == "OR" {
			set["AND-under-OR"] = true
		}
		if n.Op == "AND" {
			// left-nested AND chain (>= 3 conjuncts before an OR operand) times an OR
			ands, ors := 0, 0
			for i, k := range n.Kids {
				if k.Op == "OR" {
					ors++
					if i >= 2 || (i >= 1 && n.Kids[0].Op == "AND") {
						set["AND-chain-times-OR"] = true
					}
				} else {
					ands++
				}
			}
			if ors >= 2 {
				set["OR-times-OR"] = true
			}
		}
		for _, k := range n.Kids {
			walk(k, p)
		}
	}
	walk(n, nil)
	out := make([]string, 0, len(set))
	for c := range set {
		out = append(out, c)
	}
	sort.Strings(out)
	return out
}

func hasBothOps(n *Node) bool {
	and, or := false, false
	var walk func(n *Node)
	walk = func(n *Node) {
		if n.Op == "AND" {
			and = true
		}
		if n.Op == "OR" {
			or = true
		}
		for _, k := range n.Kids {
			walk(k)
		}
	}
	walk(n)
	return and && or
}
