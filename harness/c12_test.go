package harness

import (
	"bytes"
	"encoding/json"
	"fmt"
	"os"
	"os/exec"
	"path/filepath"
	"regexp"
	"strings"
	"testing"

	"pgregory.net/rapid"
)

func repoDir() string {
	if d := os.Getenv("VERIF_REPO"); d != "" {
		return d
	}
	return "/repo"
}

// independent reader of the SPDX JSON (generic maps, not the generator's structs)
func readIDs(path, arrayKey, idKey string) (active, deprecated []string, err error) {
	data, err := os.ReadFile(path)
	if err != nil {
		return nil, nil, err
	}
	var doc map[string]json.RawMessage
	if err := json.Unmarshal(data, &doc); err != nil {
		return nil, nil, err
	}
	var entries []map[string]any
	if err := json.Unmarshal(doc[arrayKey], &entries); err != nil {
		return nil, nil, err
	}
	for _, e := range entries {
		id, _ := e[idKey].(string)
		dep, _ := e["isDeprecatedLicenseId"].(bool)
		if dep {
			deprecated = append(deprecated, id)
		} else {
			active = append(active, id)
		}
	}
	return active, deprecated, nil
}

type ListDiffCase struct {
	List string `json:"list"` // "active" | "deprecated" | "exceptions"
}

type GenFilesCase struct{}

type IDCase struct {
	ID   string `json:"id"`
	Kind string `json:"kind"` // "license" | "exception"
}

type GenDocCase struct {
	Licenses   string `json:"licenses_json"`
	Exceptions string `json:"exceptions_json"`
}

func init() {
	registerReplay("c12-differential", checkC12Diff)
	registerReplay("c12-regenerate", func(GenFilesCase) Outcome { return checkC12Regenerate() })
	registerReplay("c12-id", checkC12ID)
	registerReplay("c12-invariants", func(c StructCase) Outcome {
		for _, v := range c12Invariants(Tbl()) {
			if v.Key == c.Key {
				return v
			}
		}
		return pass()
	})
	registerReplay("c12-gendoc", func(c GenDocCase) Outcome {
		g, err := buildGenerator()
		if err != nil {
			return fail("C12/harness", "cannot build generator: %v", err)
		}
		defer os.RemoveAll(g.dir)
		return checkC12GenDoc(g, c)
	})
}

func firstDiff(got, want []string) string {
	for i := 0; i < len(got) || i < len(want); i++ {
		g, w := "<missing>", "<missing>"
		if i < len(got) {
			g = got[i]
		}
		if i < len(want) {
			w = want[i]
		}
		if g != w {
			return fmt.Sprintf("first difference at index %d: table has %q, SPDX data gives %q", i, g, w)
		}
	}
	return ""
}

// checkC12Diff: a shipped table equals, element for element, what the JSON in cmd/ says.
func checkC12Diff(c ListDiffCase) Outcome {
	tb := Tbl()
	act, dep, err := readIDs(filepath.Join(repoDir(), "cmd", "licenses.json"), "licenses", "licenseId")
	if err != nil {
		return fail("C12/source/licenses.json", "cannot read cmd/licenses.json: %v", err)
	}
	exc, _, err := readIDs(filepath.Join(repoDir(), "cmd", "exceptions.json"), "exceptions", "licenseExceptionId")
	if err != nil {
		return fail("C12/source/exceptions.json", "cannot read cmd/exceptions.json: %v", err)
	}
	var got, want []string
	switch c.List {
	case "active":
		got, want = tb.Active, act
	case "deprecated":
		got, want = tb.Deprecated, dep
	default:
		got, want = tb.Exceptions, exc
	}
	if d := firstDiff(got, want); d != "" {
		return fail("C12/differential/"+c.List, "the %s id table (%d ids) is not what the SPDX JSON in cmd/ says (%d ids): %s", c.List, len(got), len(want), d)
	}
	return pass()
}

// ---- generator in a scratch directory

type generator struct {
	dir string // scratch root
	bin string
}

func buildGenerator() (*generator, error) {
	dir, err := os.MkdirTemp("", "verif-gen-")
	if err != nil {
		return nil, err
	}
	src := filepath.Join(dir, "src")
	if err := os.MkdirAll(src, 0o755); err != nil {
		return nil, err
	}
	files, _ := filepath.Glob(filepath.Join(repoDir(), "cmd", "*.go"))
	for _, f := range files {
		if strings.HasSuffix(f, "_test.go") {
			continue
		}
		data, err := os.ReadFile(f)
		if err != nil {
			return nil, err
		}
		if err := os.WriteFile(filepath.Join(src, filepath.Base(f)), data, 0o644); err != nil {
			return nil, err
		}
	}
	if err := os.WriteFile(filepath.Join(src, "go.mod"), []byte("module gen\n\ngo 1.21\n"), 0o644); err != nil {
		return nil, err
	}
	g := &generator{dir: dir, bin: filepath.Join(dir, "gen")}
	cmd := exec.Command("go", "build", "-o", g.bin, ".")
	cmd.Dir = src
	cmd.Env = append(os.Environ(), "GOFLAGS=-mod=mod", "GOPROXY=off", "GOSUMDB=off", "GOTOOLCHAIN=local")
	if out, err := cmd.CombinedOutput(); err != nil {
		os.RemoveAll(dir)
		return nil, fmt.Errorf("go build of cmd/: %v\n%s", err, out)
	}
	return g, nil
}

// run executes the generator on the two JSON documents in a fresh work directory and returns the
// three generated files.
func (g *generator) run(licensesJSON, exceptionsJSON []byte) (files map[string][]byte, output string, err error) {
	work, err := os.MkdirTemp(g.dir, "work-")
	if err != nil {
		return nil, "", err
	}
	defer os.RemoveAll(work)
	cmdDir := filepath.Join(work, "cmd")
	outDir := filepath.Join(work, "spdxexp", "spdxlicenses")
	os.MkdirAll(cmdDir, 0o755)
	os.MkdirAll(outDir, 0o755)
	os.WriteFile(filepath.Join(cmdDir, "licenses.json"), licensesJSON, 0o644)
	os.WriteFile(filepath.Join(cmdDir, "exceptions.json"), exceptionsJSON, 0o644)
	cmd := exec.Command(g.bin, "extract", "-l", "-e")
	cmd.Dir = cmdDir
	out, runErr := cmd.CombinedOutput()
	files = map[string][]byte{}
	for _, name := range []string{"get_licenses.go", "get_deprecated.go", "get_exceptions.go"} {
		if data, err := os.ReadFile(filepath.Join(outDir, name)); err == nil {
			files[name] = data
		}
	}
	return files, string(out), runErr
}

// checkC12Regenerate: re-running the generator on the committed JSON reproduces the committed
// tables byte for byte.
func checkC12Regenerate() Outcome {
	g, err := buildGenerator()
	if err != nil {
		return fail("C12/regenerate/build", "the generator in cmd/ does not build in a scratch directory: %v", err)
	}
	defer os.RemoveAll(g.dir)
	lic, err1 := os.ReadFile(filepath.Join(repoDir(), "cmd", "licenses.json"))
	exc, err2 := os.ReadFile(filepath.Join(repoDir(), "cmd", "exceptions.json"))
	if err1 != nil || err2 != nil {
		return fail("C12/source", "cannot read the SPDX JSON in cmd/: %v %v", err1, err2)
	}
	files, output, err := g.run(lic, exc)
	if err != nil {
		return fail("C12/regenerate/run", "generator failed: %v\n%s", err, output)
	}
	for _, name := range []string{"get_licenses.go", "get_deprecated.go", "get_exceptions.go"} {
		committed, err := os.ReadFile(filepath.Join(repoDir(), "spdxexp", "spdxlicenses", name))
		if err != nil {
			return fail("C12/regenerate/"+name, "cannot read committed %s: %v", name, err)
		}
		got, ok := files[name]
		if !ok {
			return fail("C12/regenerate/"+name, "the generator did not write %s", name)
		}
		if !bytes.Equal(got, committed) {
			gl, cl := strings.Split(string(got), "\n"), strings.Split(string(committed), "\n")
			d := ""
			for i := 0; i < len(gl) || i < len(cl); i++ {
				a, b := "<eof>", "<eof>"
				if i < len(gl) {
					a = gl[i]
				}
				if i < len(cl) {
					b = cl[i]
				}
				if a != b {
					d = fmt.Sprintf("line %d: regenerated %q, committed %q", i+1, a, b)
					break
				}
			}
			return fail("C12/regenerate/"+name, "re-running the generator on cmd/*.json does not reproduce spdxexp/spdxlicenses/%s byte for byte: %s", name, d)
		}
	}
	return pass()
}

// c12Invariants: pairwise disjoint, no two ids equal up to case.
func c12Invariants(tb *Tables) []Outcome {
	var out []Outcome
	seen := map[string]string{}
	lists := []struct {
		name string
		ids  []string
	}{{"active", tb.Active}, {"deprecated", tb.Deprecated}, {"exceptions", tb.Exceptions}}
	for _, l := range lists {
		for _, id := range l.ids {
			k := strings.ToLower(id)
			if prev, dup := seen[k]; dup {
				out = append(out, Outcome{Key: "C12/fold-collision/" + k, Msg: fmt.Sprintf("%q on the %s list equals %s up to letter case", id, l.name, prev)})
				continue
			}
			seen[k] = fmt.Sprintf("%q on the %s list", id, l.name)
		}
	}
	if d := tb.FreshTablesDiffer(); d != "" {
		out = append(out, Outcome{Key: "C12/table-aliasing", Msg: "a caller edited the slices the table functions had returned to it, and the next call returns something else: " + d})
	}
	return out
}

// checkC12ID: a license id is a valid one-term expression; an exception id is accepted after WITH
// and nowhere else.
func checkC12ID(c IDCase) Outcome {
	key := "C12/id/" + c.ID
	if c.Kind == "license" {
		if v, p := Valid1(c.ID); !v {
			return fail(key, "listed license id %q is not accepted as a one-term expression %s", c.ID, p)
		}
		if r := Extract(c.ID); r.IsErr || r.Panic != "" || len(r.Licenses) != 1 {
			return fail(key, "ExtractLicenses(%q) = %+v for a listed license id", c.ID, r)
		}
		if r := Satisfies(c.ID, []string{c.ID}); !r.OK || r.IsErr {
			return fail(key, "Satisfies(%q, {%q}) = %s for a listed license id", c.ID, c.ID, r)
		}
		return pass()
	}
	if v, p := Valid1("MIT WITH " + c.ID); !v {
		return fail(key, "listed exception id %q is not accepted after WITH %s", c.ID, p)
	}
	for _, bad := range []string{c.ID, "LicenseRef-a WITH " + c.ID, c.ID + " WITH " + c.ID, "MIT AND " + c.ID, c.ID + "+", "MIT WITH " + c.ID + "+",
		"MIT " + c.ID, "(MIT) " + c.ID, "MIT OR ISC " + c.ID, "MIT WITH " + c.ID + " " + c.ID, "MIT+ " + c.ID, "LicenseRef-a " + c.ID} {
		if v, _ := Valid1(bad); v {
			return fail(key, "exception id accepted outside 'license WITH exception': ValidateLicenses({%q}) = valid", bad)
		}
		if r := Extract(bad); !r.IsErr {
			return fail(key, "exception id accepted outside 'license WITH exception': ExtractLicenses(%q) = %q without error", bad, r.Licenses)
		}
		if r := Satisfies(bad, []string{"MIT"}); !r.IsErr {
			return fail(key, "exception id accepted outside 'license WITH exception': Satisfies(%q, {MIT}) = %s", bad, r)
		}
	}
	for _, list := range [][]string{{c.ID}, {"MIT", c.ID}, {c.ID, "MIT"}, {"MIT", strings.ToLower(c.ID)}} {
		if r := Satisfies("MIT", list); !r.IsErr {
			return fail(key, "exception id accepted as an allowed-list entry: Satisfies(\"MIT\", %q) = %s", list, r)
		}
	}
	if r := Satisfies("MIT WITH "+c.ID, []string{"MIT WITH " + c.ID}); !r.OK || r.IsErr {
		return fail(key, "Satisfies(%q, {same}) = %s", "MIT WITH "+c.ID, r)
	}
	return pass()
}

func TestC12_Tables(t *testing.T) {
	rec := NewRecorder("C12", "tables", "differential: independent reader of cmd/licenses.json and cmd/exceptions.json vs GetLicenses/GetDeprecated/GetExceptions element for element; invariants: lists pairwise disjoint and collision-free under case folding; EVERY license id accepted as a one-term expression (Validate, Extract, Satisfies itself), EVERY exception id accepted after WITH and rejected as a term / after a LicenseRef / before WITH / with '+'; non-trivial = every id; distinct by id")
	rec.Exhaustive = true
	defer rec.Finish(t)
	tb := Tbl()
	for _, l := range []string{"active", "deprecated", "exceptions"} {
		c := ListDiffCase{List: l}
		if out := checkC12Diff(c); !out.OK {
			rec.Violate("c12-differential", out.Key, out.Msg, c)
		}
		rec.Count(1, "differential-"+l)
	}
	for _, v := range c12Invariants(tb) {
		rec.Violate("c12-invariants", v.Key, v.Msg, StructCase{Key: v.Key})
	}
	var jobs []IDCase
	for _, id := range tb.Active {
		jobs = append(jobs, IDCase{id, "license"})
	}
	for _, id := range tb.Deprecated {
		jobs = append(jobs, IDCase{id, "license"})
	}
	for _, id := range tb.Exceptions {
		jobs = append(jobs, IDCase{id, "exception"})
	}
	parallelFor(len(jobs), func(i int) {
		out := checkC12ID(jobs[i])
		rec.Case(true, jobs[i].Kind+"/"+jobs[i].ID, jobs[i].Kind+" "+jobs[i].ID, jobs[i].Kind)
		if !out.OK {
			rec.Violate("c12-id", out.Key, out.Msg, jobs[i])
		}
	})
}

func TestC12_Regenerate(t *testing.T) {
	rec := NewRecorder("C12", "regenerate", "the generator sources in cmd/ are copied to a scratch directory, built and run on the committed cmd/licenses.json and cmd/exceptions.json; its three output files must equal the committed get_*.go byte for byte; one case per file")
	rec.Exhaustive = true
	defer rec.Finish(t)
	out := checkC12Regenerate()
	for _, name := range []string{"get_licenses.go", "get_deprecated.go", "get_exceptions.go"} {
		rec.Case(true, name, "regenerate "+name, "file")
	}
	if !out.OK {
		rec.Violate("c12-regenerate", out.Key, out.Msg, GenFilesCase{})
	}
}

var strLit = regexp.MustCompile(`(?m)^\t\t"(.*)",$`)

// template pieces of a committed generated file: everything before the first and after the last id line
func templateOf(name string) (head, tail string, err error) {
	data, err := os.ReadFile(filepath.Join(repoDir(), "spdxexp", "spdxlicenses", name))
	if err != nil {
		return "", "", err
	}
	locs := strLit.FindAllIndex(data, -1)
	if len(locs) == 0 {
		return "", "", fmt.Errorf("%s: no id lines", name)
	}
	return string(data[:locs[0][0]]), string(data[locs[len(locs)-1][1]+1:]), nil
}

// checkC12GenDoc: the generator, run on a generated SPDX-shaped document, writes exactly the ids
// of that document, partitioned by the deprecated flag, in order, in the committed files' frame.
func checkC12GenDoc(g *generator, c GenDocCase) Outcome {
	key := fmt.Sprintf("C12/generator/%x", hash64(c.Licenses+"\x00"+c.Exceptions))
	files, output, err := g.run([]byte(c.Licenses), []byte(c.Exceptions))
	if err != nil {
		return fail(key, "generator failed on a well-formed document: %v\n%s", err, output)
	}
	dir, _ := os.MkdirTemp(g.dir, "ref-")
	defer os.RemoveAll(dir)
	lp, ep := filepath.Join(dir, "l.json"), filepath.Join(dir, "e.json")
	os.WriteFile(lp, []byte(c.Licenses), 0o644)
	os.WriteFile(ep, []byte(c.Exceptions), 0o644)
	act, dep, err1 := readIDs(lp, "licenses", "licenseId")
	exc, _, err2 := readIDs(ep, "exceptions", "licenseExceptionId")
	if err1 != nil || err2 != nil {
		return fail("C12/harness", "reference reader failed: %v %v", err1, err2)
	}
	for name, want := range map[string][]string{"get_licenses.go": act, "get_deprecated.go": dep, "get_exceptions.go": exc} {
		head, tail, err := templateOf(name)
		if err != nil {
			return fail("C12/harness", "%v", err)
		}
		var b strings.Builder
		b.WriteString(head)
		for _, id := range want {
			b.WriteString("\t\t\"" + id + "\",\n")
		}
		b.WriteString(tail)
		if got := string(files[name]); got != b.String() {
			var gotIDs []string
			for _, m := range strLit.FindAllStringSubmatch(got, -1) {
				gotIDs = append(gotIDs, m[1])
			}
			return fail(key, "generator output %s differs from the reference rendering: ids written %q, ids in the document %q", name, gotIDs, want)
		}
	}
	return pass()
}

func drawSPDXDoc(rt *rapid.T, arrayKey, idKey, label string, minDep int) (string, int, int) {
	n := rapid.IntRange(0, 40).Draw(rt, label+"N")
	idGen := rapid.StringMatching(`[A-Za-z0-9.+-]{1,16}`)
	var entries []string
	nDep, nAct := 0, 0
	for i := 0; i < n; i++ {
		l := fmt.Sprintf("%s%d", label, i)
		id := idGen.Draw(rt, l+"id")
		fields := []string{fmt.Sprintf("%q: %q", idKey, id)}
		switch rapid.IntRange(0, 3).Draw(rt, l+"dep") {
		case 0:
			fields = append(fields, `"isDeprecatedLicenseId": true`)
			nDep++
		case 1:
			fields = append(fields, `"isDeprecatedLicenseId": false`)
			nAct++
		case 2: // flag absent
			nAct++
		default:
			fields = append(fields, `"isDeprecatedLicenseId": false`, `"isOsiApproved": true`)
			nAct++
		}
		if rapid.Bool().Draw(rt, l+"extra") {
			fields = append(fields, fmt.Sprintf(`"name": "Name of %s"`, id), fmt.Sprintf(`"referenceNumber": %d`, i), `"seeAlso": ["https://example.invalid/x"]`, `"unknownField": {"a": [1, 2]}`)
		}
		fields = rapid.Permutation(fields).Draw(rt, l+"order")
		entries = append(entries, "{"+strings.Join(fields, ", ")+"}")
	}
	top := []string{`"licenseListVersion": "9.99"`, fmt.Sprintf("%q: [\n  %s\n ]", arrayKey, strings.Join(entries, ",\n  ")), `"releaseDate": "2026-01-01"`}
	top = rapid.Permutation(top).Draw(rt, label+"top")
	return "{\n " + strings.Join(top, ",\n ") + "\n}\n", nAct, nDep
}

func TestC12_Generator(t *testing.T) {
	rec := NewRecorder("C12", "generator", "the generator built from cmd/ is run on rapid-generated SPDX-shaped JSON documents (0-40 entries each, ids from [A-Za-z0-9.+-]{1,16}, deprecated flag true/false/absent, extra and unknown fields, shuffled key order); oracle: its three outputs equal the reference rendering (ids of the document partitioned by the flag, in document order, inside the committed files' own header/footer); non-trivial = the licenses document has >= 1 deprecated and >= 1 active entry; distinct by document")
	defer rec.Finish(t)
	g, err := buildGenerator()
	if err != nil {
		rec.Violate("c12-regenerate", "C12/regenerate/build", fmt.Sprintf("the generator in cmd/ does not build in a scratch directory: %v", err), GenFilesCase{})
		return
	}
	defer os.RemoveAll(g.dir)
	rec.Rapid(t, func(rt *rapid.T) {
		lic, nAct, nDep := drawSPDXDoc(rt, "licenses", "licenseId", "l", 0)
		exc, _, _ := drawSPDXDoc(rt, "exceptions", "licenseExceptionId", "e", 0)
		c := GenDocCase{Licenses: lic, Exceptions: exc}
		out := checkC12GenDoc(g, c)
		rec.Case(nAct > 0 && nDep > 0, lic+exc, map[string]any{"licenses_json": lic, "exceptions_json": exc})
		if !out.OK {
			rec.Fail(rt, "c12-gendoc", out.Key, out.Msg, c)
		}
	})
}

// ---- "any future refresh": the library rebuilt on refreshed tables

// RefreshCase: how the SPDX JSON is changed before the tables are regenerated.
type RefreshCase struct {
	Mode   string   `json:"mode"`   // reverse | shuffle | append | mixed
	Append []string `json:"append"` // new license ids appended (active)
	Seed   int      `json:"seed"`   // shuffle seed (deterministic LCG)
}

func init() { registerReplay("c12-refresh", checkC12Refresh) }

const refreshProbe = `package main

import (
	"encoding/json"
	"fmt"
	"os"

	"github.com/github/go-spdx/v2/spdxexp"
	"github.com/github/go-spdx/v2/spdxexp/spdxlicenses"
)

func ids(path, arr, key string) (act, dep []string) {
	data, _ := os.ReadFile(path)
	var doc map[string]json.RawMessage
	json.Unmarshal(data, &doc)
	var es []map[string]any
	json.Unmarshal(doc[arr], &es)
	for _, e := range es {
		id, _ := e[key].(string)
		if d, _ := e["isDeprecatedLicenseId"].(bool); d {
			dep = append(dep, id)
		} else {
			act = append(act, id)
		}
	}
	return
}

func same(a, b []string) bool {
	if len(a) != len(b) {
		return false
	}
	for i := range a {
		if a[i] != b[i] {
			return false
		}
	}
	return true
}

func main() {
	act, dep := ids("cmd/licenses.json", "licenses", "licenseId")
	exc, _ := ids("cmd/exceptions.json", "exceptions", "licenseExceptionId")
	bad := 0
	report := func(f string, a ...any) { bad++; if bad <= 5 { fmt.Printf("PROBE-FAIL "+f+"\n", a...) } }
	if !same(act, spdxlicenses.GetLicenses()) || !same(dep, spdxlicenses.GetDeprecated()) || !same(exc, spdxlicenses.GetExceptions()) {
		report("regenerated tables differ from the refreshed JSON")
	}
	for _, id := range append(append([]string{}, act...), dep...) {
		if ok, _ := spdxexp.ValidateLicenses([]string{id}); !ok {
			report("listed license id %q is rejected", id)
		}
		if ok, err := spdxexp.Satisfies(id, []string{id}); !ok || err != nil {
			report("Satisfies(%q, {%q}) = %v, %v", id, id, ok, err)
		}
	}
	for _, id := range exc {
		if ok, _ := spdxexp.ValidateLicenses([]string{"MIT WITH " + id}); !ok {
			report("listed exception id %q is rejected after WITH", id)
		}
		if ok, _ := spdxexp.ValidateLicenses([]string{id}); ok {
			report("exception id %q is accepted as a license", id)
		}
	}
	if ok, err := spdxexp.Satisfies("GPL-3.0-only OR MIT", []string{"GPL-2.0+"}); !ok || err != nil {
		report("Satisfies(GPL-3.0-only OR MIT, {GPL-2.0+}) = %v, %v", ok, err)
	}
	fmt.Printf("PROBE-DONE failures=%d licenses=%d exceptions=%d\n", bad, len(act)+len(dep), len(exc))
}
`

func copyTree(src, dst string, rel ...string) error {
	for _, r := range rel {
		err := filepath.Walk(filepath.Join(src, r), func(p string, info os.FileInfo, err error) error {
			if err != nil {
				return err
			}
			out := filepath.Join(dst, strings.TrimPrefix(p, src))
			if info.IsDir() {
				return os.MkdirAll(out, 0o755)
			}
			if strings.HasSuffix(p, "_test.go") {
				return nil
			}
			data, err := os.ReadFile(p)
			if err != nil {
				return err
			}
			return os.WriteFile(out, data, 0o644)
		})
		if err != nil {
			return err
		}
	}
	return nil
}

// reorder rewrites the array of an SPDX JSON document (generic maps keep every field).
func refreshJSON(path, arr, idKey string, c RefreshCase, appendIDs []string) error {
	data, err := os.ReadFile(path)
	if err != nil {
		return err
	}
	var doc map[string]json.RawMessage
	if err := json.Unmarshal(data, &doc); err != nil {
		return err
	}
	var es []map[string]any
	if err := json.Unmarshal(doc[arr], &es); err != nil {
		return err
	}
	switch c.Mode {
	case "reverse", "mixed":
		for i, j := 0, len(es)-1; i < j; i, j = i+1, j-1 {
			es[i], es[j] = es[j], es[i]
		}
	case "shuffle":
		x := uint64(c.Seed)*2862933555777941757 + 3037000493
		for i := len(es) - 1; i > 0; i-- {
			x = x*2862933555777941757 + 3037000493
			j := int((x >> 33) % uint64(i+1))
			es[i], es[j] = es[j], es[i]
		}
	}
	if c.Mode == "shrink" {
		// one active entry becomes deprecated and the last two entries disappear: every table changes
		// length (a generator that rewrites files in place must cope with shorter output)
		flipped := false
		for i := len(es) - 3; i >= 0 && !flipped; i-- {
			if d, _ := es[i]["isDeprecatedLicenseId"].(bool); !d {
				if id, _ := es[i][idKey].(string); !strings.Contains(id, "-only") && !strings.Contains(id, "-or-later") && len(Tbl().Positions(id)) == 0 {
					es[i]["isDeprecatedLicenseId"] = true
					flipped = true
				}
			}
		}
		es = es[:len(es)-2]
	}
	for _, id := range appendIDs {
		es = append(es, map[string]any{idKey: id, "isDeprecatedLicenseId": false, "name": "refreshed entry " + id, "reference": "https://example.invalid/" + id})
	}
	raw, _ := json.Marshal(es)
	doc[arr] = raw
	out, _ := json.MarshalIndent(doc, "", "  ")
	return os.WriteFile(path, out, 0o644)
}

// checkC12Refresh: refresh the SPDX JSON in a scratch copy of the repository (reorder the entries,
// append new ids), regenerate the tables with the repository's own generator, rebuild the library
// on them and check that every listed id still works.
func checkC12Refresh(c RefreshCase) Outcome {
	key := fmt.Sprintf("C12/refresh/%s/%d/%s", c.Mode, c.Seed, strings.Join(c.Append, ","))
	dir, err := os.MkdirTemp("", "verif-refresh-")
	if err != nil {
		return fail("C12/harness", "%v", err)
	}
	defer os.RemoveAll(dir)
	if err := copyTree(repoDir(), dir, "cmd", "spdxexp"); err != nil {
		return fail("C12/harness", "copy: %v", err)
	}
	for _, f := range []string{"go.mod", "go.sum"} {
		data, _ := os.ReadFile(filepath.Join(repoDir(), f))
		os.WriteFile(filepath.Join(dir, f), data, 0o644)
	}
	if err := refreshJSON(filepath.Join(dir, "cmd", "licenses.json"), "licenses", "licenseId", c, c.Append); err != nil {
		return fail("C12/harness", "refresh licenses.json: %v", err)
	}
	var excAppend []string
	if len(c.Append) > 0 {
		excAppend = []string{"Aaa-refreshed-exception", "zzz-refreshed-exception-9.9"}
	}
	if err := refreshJSON(filepath.Join(dir, "cmd", "exceptions.json"), "exceptions", "licenseExceptionId", c, excAppend); err != nil {
		return fail("C12/harness", "refresh exceptions.json: %v", err)
	}
	env := append(os.Environ(), "GOFLAGS=-mod=mod", "GOPROXY=off", "GOSUMDB=off", "GOTOOLCHAIN=local")
	gen := exec.Command("go", "run", ".", "extract", "-l", "-e")
	gen.Dir = filepath.Join(dir, "cmd")
	gen.Env = env
	if out, err := gen.CombinedOutput(); err != nil {
		return fail(key, "the generator fails on the refreshed data: %v\n%s", err, firstN(string(out), 1500))
	}
	os.MkdirAll(filepath.Join(dir, "zzprobe"), 0o755)
	os.WriteFile(filepath.Join(dir, "zzprobe", "main.go"), []byte(refreshProbe), 0o644)
	probe := exec.Command("go", "run", "./zzprobe")
	probe.Dir = dir
	probe.Env = env
	out, err := probe.CombinedOutput()
	s := string(out)
	if err != nil || !strings.Contains(s, "PROBE-DONE failures=0 ") {
		return fail(key, "after refreshing cmd/*.json (%s; appended %q) and regenerating the tables, the rebuilt library misbehaves:\n%s", c.Mode, c.Append, firstN(s, 2000))
	}
	return pass()
}

func TestC12_Refresh(t *testing.T) {
	cfg := Cfg()
	rec := NewRecorder("C12", "refresh", "the repository (cmd/ + spdxexp/) is copied to a scratch directory, cmd/licenses.json and cmd/exceptions.json are refreshed (entries reversed / shuffled with a seeded LCG / new benign ids appended at the end / an entry flipped to deprecated and the last two removed, so that every table shrinks), the tables are regenerated with the repository's own generator and the library is rebuilt on them; oracle: tables equal the refreshed JSON, every listed license id validates and satisfies itself, every exception id is accepted after WITH and rejected as a license; non-trivial = every refresh; distinct by refresh")
	defer rec.Finish(t)
	cases := []RefreshCase{{Mode: "reverse"}, {Mode: "shrink"}, {Mode: "append", Append: []string{"BSD-Seed-Refresh", "aaa-first-1.0", "Zzz-Last-2.0", "0-digit-first"}}, {Mode: "shuffle", Seed: int(cfg.Seed)}}
	for i := 0; i < cfg.Pick(0, 9); i++ {
		cases = append(cases, RefreshCase{Mode: "shuffle", Seed: int(cfg.Seed) + 1 + i}, RefreshCase{Mode: "mixed", Append: []string{fmt.Sprintf("Refresh-%d.0", i), "m-middle"}})
	}
	parallelFor(len(cases), func(i int) {
		out := checkC12Refresh(cases[i])
		rec.Case(true, fmt.Sprintf("%+v", cases[i]), cases[i], "mode-"+cases[i].Mode)
		if !out.OK {
			rec.Violate("c12-refresh", out.Key, out.Msg, cases[i])
		}
	})
}
