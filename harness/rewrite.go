package harness

import (
	"fmt"

	"pgregory.net/rapid"
)

// §3.7 Sound Boolean rewrites applied at generated positions of a tree.

func (n *Node) nodes(into *[]*Node) {
	*into = append(*into, n)
	for _, k := range n.Kids {
		k.nodes(into)
	}
}

func dual(op string) string {
	if op == "AND" {
		return "OR"
	}
	return "AND"
}

func leafNode(i int) *Node { return &Node{Leaf: i} }

// normalise a node after edits: an operator node with one kid collapses to that kid.
func (n *Node) tidy() {
	for _, k := range n.Kids {
		k.tidy()
	}
	if !n.IsLeaf() && len(n.Kids) == 1 {
		paren := n.Paren
		*n = *n.Kids[0]
		n.Paren += paren
		if n.Paren > 2 {
			n.Paren = 2
		}
	}
}

var rewriteKinds = []string{"commute", "assoc-group", "assoc-flatten", "idem-dup", "idem-drop", "absorb", "distribute", "factor"}

// ApplyRewrite tries to apply one rewrite of the given kind at node n (in place). nTerms is the pool
// size (absorption may introduce any pool term). Reports whether it applied.
func ApplyRewrite(rt *rapid.T, n *Node, kind string, nTerms int, label string) bool {
	switch kind {
	case "commute":
		if n.IsLeaf() {
			return false
		}
		perm := rapid.Permutation(n.Kids).Draw(rt, label+"perm")
		same := true
		for i := range perm {
			same = same && perm[i] == n.Kids[i]
		}
		n.Kids = perm
		return !same
	case "assoc-group": // a op b op c -> (a op b) op c for a generated sub-range
		if n.IsLeaf() || len(n.Kids) < 3 {
			return false
		}
		lo := rapid.IntRange(0, len(n.Kids)-2).Draw(rt, label+"lo")
		hi := rapid.IntRange(lo+2, min(len(n.Kids), lo+len(n.Kids)-1)).Draw(rt, label+"hi")
		if hi-lo >= len(n.Kids) {
			return false
		}
		g := &Node{Op: n.Op, Kids: append([]*Node{}, n.Kids[lo:hi]...), Paren: 1}
		kids := append([]*Node{}, n.Kids[:lo]...)
		kids = append(kids, g)
		n.Kids = append(kids, n.Kids[hi:]...)
		return true
	case "assoc-flatten": // (a op b) op c -> a op b op c
		if n.IsLeaf() {
			return false
		}
		for i, k := range n.Kids {
			if k.Op == n.Op {
				kids := append([]*Node{}, n.Kids[:i]...)
				kids = append(kids, k.Kids...)
				n.Kids = append(kids, n.Kids[i+1:]...)
				return true
			}
		}
		return false
	case "idem-dup": // E -> E op E
		op := rapid.SampledFrom([]string{"AND", "OR"}).Draw(rt, label+"op")
		if n.Leaves() > 10 {
			return false
		}
		c1, c2 := n.Clone(), n.Clone()
		*n = Node{Op: op, Kids: []*Node{c1, c2}}
		return true
	case "idem-drop": // E op E -> E
		if n.IsLeaf() {
			return false
		}
		for i := 0; i < len(n.Kids); i++ {
			for j := i + 1; j < len(n.Kids); j++ {
				if n.Kids[i].Shape() == n.Kids[j].Shape() {
					n.Kids = append(n.Kids[:j], n.Kids[j+1:]...)
					n.tidy()
					return true
				}
			}
		}
		return false
	case "absorb": // E -> E OR (E AND F) | E AND (E OR F)
		if n.Leaves() > 8 {
			return false
		}
		op := rapid.SampledFrom([]string{"AND", "OR"}).Draw(rt, label+"op")
		f := leafNode(rapid.IntRange(0, nTerms-1).Draw(rt, label+"f"))
		e1, e2 := n.Clone(), n.Clone()
		inner := &Node{Op: dual(op), Kids: []*Node{e2, f}}
		if rapid.Bool().Draw(rt, label+"swap") {
			inner.Kids = []*Node{f, e2}
		}
		*n = Node{Op: op, Kids: []*Node{e1, inner}}
		return true
	case "distribute": // A op (B dual C ...) -> (A op B) dual (A op C) ...
		if n.IsLeaf() || len(n.Kids) != 2 {
			return false
		}
		ai, bi := 0, 1
		if n.Kids[1].Op != dual(n.Op) {
			ai, bi = 1, 0
		}
		a, b := n.Kids[ai], n.Kids[bi]
		if b.Op != dual(n.Op) || a.Leaves()*len(b.Kids)+b.Leaves() > 24 {
			return false
		}
		out := &Node{Op: dual(n.Op)}
		for _, k := range b.Kids {
			pair := []*Node{a.Clone(), k}
			if ai == 1 {
				pair = []*Node{k, a.Clone()}
			}
			out.Kids = append(out.Kids, &Node{Op: n.Op, Kids: pair})
		}
		out.Paren = n.Paren
		*n = *out
		return true
	case "factor": // (A op B) dual (A op C) -> A op (B dual C)
		if n.IsLeaf() || len(n.Kids) < 2 {
			return false
		}
		inner := dual(n.Op)
		var common *Node
		for _, k := range n.Kids {
			if k.Op != inner || len(k.Kids) < 2 {
				return false
			}
			if common == nil {
				common = k.Kids[0]
			} else if common.Shape() != k.Kids[0].Shape() {
				return false
			}
		}
		rest := &Node{Op: n.Op}
		for _, k := range n.Kids {
			if len(k.Kids) == 2 {
				rest.Kids = append(rest.Kids, k.Kids[1])
			} else {
				rest.Kids = append(rest.Kids, &Node{Op: inner, Kids: k.Kids[1:]})
			}
		}
		*n = Node{Op: inner, Kids: []*Node{common, rest}, Paren: n.Paren}
		return true
	}
	panic(fmt.Sprintf("unknown rewrite %q", kind))
}

// applicable is a cheap necessary condition for ApplyRewrite(kind) to apply at n.
func applicable(n *Node, kind string) bool {
	switch kind {
	case "commute":
		return !n.IsLeaf()
	case "assoc-group":
		return !n.IsLeaf() && len(n.Kids) >= 3
	case "assoc-flatten":
		for _, k := range n.Kids {
			if k.Op == n.Op && !n.IsLeaf() {
				return true
			}
		}
		return false
	case "idem-dup":
		return n.Leaves() <= 10
	case "idem-drop":
		for i := 0; i < len(n.Kids); i++ {
			for j := i + 1; j < len(n.Kids); j++ {
				if n.Kids[i].Shape() == n.Kids[j].Shape() {
					return true
				}
			}
		}
		return false
	case "absorb":
		return n.Leaves() <= 8
	case "distribute":
		return !n.IsLeaf() && len(n.Kids) == 2 && (n.Kids[0].Op == dual(n.Op) || n.Kids[1].Op == dual(n.Op))
	case "factor":
		if n.IsLeaf() || len(n.Kids) < 2 {
			return false
		}
		for _, k := range n.Kids {
			if k.Op != dual(n.Op) || len(k.Kids) < 2 || k.Kids[0].Shape() != n.Kids[0].Kids[0].Shape() {
				return false
			}
		}
		return true
	}
	return false
}

// Rewrite applies 1..maxSteps generated rewrites to a clone of e1 and returns it with the kinds
// applied. The kind is drawn first, then a position among the nodes where it can apply.
func Rewrite(rt *rapid.T, e1 *Node, nTerms, maxSteps int) (*Node, []string) {
	e2 := e1.Clone()
	var applied []string
	steps := rapid.IntRange(1, maxSteps).Draw(rt, "nRewrites")
	for s := 0; s < steps; s++ {
		for try := 0; try < 6; try++ {
			label := fmt.Sprintf("rw%d.%d.", s, try)
			kind := rapid.SampledFrom(rewriteKinds).Draw(rt, label+"kind")
			var all, cand []*Node
			e2.nodes(&all)
			for _, n := range all {
				if applicable(n, kind) {
					cand = append(cand, n)
				}
			}
			if len(cand) == 0 {
				continue
			}
			idx := rapid.IntRange(0, len(cand)-1).Draw(rt, label+"node")
			before := e2.Clone()
			if ApplyRewrite(rt, cand[idx], kind, nTerms, label) {
				if e2.Leaves() > 40 || e2.Alternatives() > 4096 {
					e2 = before
					continue
				}
				applied = append(applied, kind)
				break
			}
		}
	}
	return e2, applied
}
