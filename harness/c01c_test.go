package harness

import (
	"fmt"
	"strings"
	"testing"
)

// TestC01_Distractors: every listed id (and its '+' form) against short lists in which its own
// match sits between distractors that sort before and after it, with and without '+': the term
// is satisfied iff its match is on the list, whatever else was compared first.
func TestC01_Distractors(t *testing.T) {
	rec := NewRecorder("C01", "distractors", "EVERY listed license id X in forms {X, X+}: Satisfies(X, L) for lists L = distractors around X's own entry (distractors with and without '+', sorting before and after X, from other families), and the same lists without X's entry; oracle: per-entry truth (X matches an entry on its own) + the reference model; non-trivial = every case; distinct by (X, L)")
	rec.Exhaustive = true
	defer rec.Finish(t)
	tb := Tbl()
	dis := []string{"0BSD", "Apache-2.0+", "AFL-1.1+", "MIT", "Zlib", "ZPL-2.1+", "OSL-3.0+", "LicenseRef-zz"}
	var jobs []TreeCase
	for _, x := range tb.AllLic {
		for _, form := range []string{"", "+"} {
			term := tb.MakeLicTerm(x, form, 0, "", 0, "", "")
			var around []Term
			for _, d := range dis {
				if strings.HasPrefix(d, "LicenseRef-") {
					around = append(around, MakeRefTerm("", strings.TrimPrefix(d, "LicenseRef-")))
					continue
				}
				f := ""
				if strings.HasSuffix(d, "+") {
					f, d = "+", strings.TrimSuffix(d, "+")
				}
				if d == x || len(tb.Relatives(d)) > 1 && contains(tb.Relatives(d), x) {
					continue // a distractor must not be able to match X
				}
				around = append(around, tb.MakeLicTerm(d, f, 0, "", 0, "", ""))
			}
			for _, withX := range []bool{true, false} {
				for rot := 0; rot < 2; rot++ {
					list := append([]Term{}, around[rot*3:rot*3+4]...)
					if withX {
						list = append(list[:2:2], append([]Term{tb.MakeLicTerm(x, "", 0, "", 0, "", "")}, list[2:]...)...)
					}
					jobs = append(jobs, TreeCase{Pool: []Term{term}, Tree: leafNode(0), Expr: term.Text, AllowedTerms: list, Allowed: Texts(list)})
				}
			}
		}
	}
	parallelFor(len(jobs), func(i int) {
		c := jobs[i]
		out := checkC01(c)
		rec.Case(true, c.Expr+" | "+strings.Join(c.Allowed, ","), fmt.Sprintf("Satisfies(%q, %q)", c.Expr, c.Allowed))
		if !out.OK {
			rec.Violate("c01-boolean", out.Key, out.Msg, c)
		}
	})
}

func contains(xs []string, x string) bool {
	for _, y := range xs {
		if y == x {
			return true
		}
	}
	return false
}
