package harness

import (
	"encoding/json"
	"fmt"
)

// Outcome of one plain (rapid-free) evaluation of a case.
type Outcome struct {
	OK  bool
	Key string // finding key when !OK
	Msg string
}

func pass() Outcome { return Outcome{OK: true} }
func fail(key, format string, a ...any) Outcome {
	return Outcome{Key: key, Msg: fmt.Sprintf(format, a...)}
}

// replayers maps a check name (Violation.Check) to the plain function that re-decides a stored case.
var replayers = map[string]func(raw json.RawMessage) (Outcome, error){}

func registerReplay[C any](name string, f func(c C) Outcome) {
	replayers[name] = func(raw json.RawMessage) (Outcome, error) {
		var c C
		if err := json.Unmarshal(raw, &c); err != nil {
			return Outcome{}, err
		}
		return f(c), nil
	}
}

// ReplayFile is what the driver writes for a violation and what --replay reads back.
type ReplayFile struct {
	Property string          `json:"property"`
	Check    string          `json:"check"`
	Key      string          `json:"key"`
	Msg      string          `json:"msg"`
	Case     json.RawMessage `json:"case"`
}
