package harness

import (
	"fmt"
	"strings"

	"pgregory.net/rapid"
)

// ---------------------------------------------------------------------------------------------
// §3.4 Token alphabet, renderer and reference recogniser

type Tok struct {
	K string `json:"k"` // LIC EXC UNK LOWOP ODD LREF DREF : ( ) AND OR WITH + SP+
	T string `json:"t"` // text
}

const (
	kLIC   = "LIC"
	kEXC   = "EXC"
	kUNK   = "UNK"
	kLOWOP = "LOWOP" // and / or / with: id-shaped, on no list
	kODD   = "ODD"   // spellings whose validity the properties leave open (never asserted on)
	kLREF  = "LREF"
	kDREF  = "DREF"
	kCOLON = ":"
	kLP    = "("
	kRP    = ")"
	kAND   = "AND"
	kOR    = "OR"
	kWITH  = "WITH"
	kPLUS  = "+"   // abuts the previous token
	kSPLUS = "SP+" // '+' preceded by a space
)

func wordLike(k string) bool {
	switch k {
	case kLIC, kEXC, kUNK, kLOWOP, kODD, kLREF, kDREF, kAND, kOR, kWITH:
		return true
	}
	return false
}

// RenderToks renders a token sequence. gaps supplies the spacing choices (cycled): two word-like
// tokens, and a word after '+', are separated by >= 1 space; elsewhere spaces are optional.
func RenderToks(toks []Tok, sp *Spacer) string {
	var b strings.Builder
	b.WriteString(sp.opt()) // leading spaces
	for i, t := range toks {
		if i > 0 {
			prev := toks[i-1].K
			switch {
			case t.K == kPLUS:
				// abuts
			case t.K == kSPLUS:
				b.WriteString(sp.word())
			case wordLike(prev) && wordLike(t.K), (prev == kPLUS || prev == kSPLUS) && wordLike(t.K):
				b.WriteString(sp.word())
			default:
				b.WriteString(sp.opt())
			}
		} else if t.K == kSPLUS {
			b.WriteString(sp.word())
		}
		if t.K == kSPLUS {
			b.WriteString("+")
		} else {
			b.WriteString(t.T)
		}
	}
	b.WriteString(sp.opt())
	return b.String()
}

func kinds(toks []Tok) string {
	ks := make([]string, len(toks))
	for i, t := range toks {
		ks[i] = t.K
	}
	return strings.Join(ks, " ")
}

// Recognise decides whether the token sequence derives from the documented grammar
//
//	expr := and {OR and}; and := atom {AND atom};
//	atom := '(' expr ')' | [DREF ':'] LREF | LIC ['+'] [WITH EXC]
//
// compound reports whether the derivation's root (parentheses being transparent) is an AND/OR.
// ODD tokens make the verdict undefined (ok=false, defined=false).
func Recognise(toks []Tok) (accepted, compound, defined bool) {
	for _, t := range toks {
		if t.K == kODD {
			return false, false, false
		}
	}
	p := &recog{toks: toks}
	comp, ok := p.expr()
	if !ok || p.i != len(toks) {
		return false, false, true
	}
	return true, comp, true
}

type recog struct {
	toks []Tok
	i    int
}

func (p *recog) peek() string {
	if p.i < len(p.toks) {
		return p.toks[p.i].K
	}
	return ""
}

func (p *recog) expr() (compound, ok bool) {
	c, ok := p.and()
	if !ok {
		return false, false
	}
	for p.peek() == kOR {
		p.i++
		if _, ok := p.and(); !ok {
			return false, false
		}
		c = true
	}
	return c, true
}

func (p *recog) and() (compound, ok bool) {
	c, ok := p.atom()
	if !ok {
		return false, false
	}
	for p.peek() == kAND {
		p.i++
		if _, ok := p.atom(); !ok {
			return false, false
		}
		c = true
	}
	return c, true
}

func (p *recog) atom() (compound, ok bool) {
	switch p.peek() {
	case kLP:
		p.i++
		c, ok := p.expr()
		if !ok || p.peek() != kRP {
			return false, false
		}
		p.i++
		return c, true
	case kDREF:
		p.i++
		if p.peek() != kCOLON {
			return false, false
		}
		p.i++
		if p.peek() != kLREF {
			return false, false
		}
		p.i++
		return false, true
	case kLREF:
		p.i++
		return false, true
	case kLIC:
		p.i++
		if p.peek() == kPLUS {
			p.i++
		}
		if p.peek() == kWITH {
			p.i++
			if p.peek() != kEXC {
				return false, false
			}
			p.i++
		}
		return false, true
	}
	return false, false
}

// FoldsPlus: the scanner merges "X+" into the listed "X-or-later" (and swallows the '+') exactly
// for these spellings; "X++" is the input class of the known finding C05/double-plus.
func (t *Tables) FoldsPlus(spelling string) bool {
	if _, ok := t.ActiveID(spelling); ok {
		return false
	}
	if _, ok := t.ExceptionID(spelling); ok {
		return false
	}
	if strings.HasSuffix(spelling, "-only") {
		if _, ok := t.ActiveID(strings.TrimSuffix(spelling, "-only")); ok {
			return false
		}
	}
	_, ok := t.ActiveID(spelling + "-or-later")
	return ok
}

// HasDoublePlusFold reports whether the sequence contains LIC + + with a folding LIC.
func (t *Tables) HasDoublePlusFold(toks []Tok) bool {
	for i := 0; i+2 < len(toks); i++ {
		if toks[i].K == kLIC && toks[i+1].K == kPLUS && toks[i+2].K == kPLUS && t.FoldsPlus(toks[i].T) {
			return true
		}
	}
	return false
}

// IsUnknownID: id-shaped, denotes nothing under any reading, and cannot be mistaken for an
// operator or a reference prefix by a tokenizer that matches operators first.
func (t *Tables) IsUnknownID(s string) bool {
	if !idShaped(s) {
		return false
	}
	for _, p := range []string{"AND", "OR", "WITH", "LicenseRef-", "DocumentRef-"} {
		if strings.HasPrefix(s, p) {
			return false
		}
	}
	if _, ok := t.ExceptionID(s); ok {
		return false
	}
	if _, _, ok := t.Normalize(s, false); ok {
		return false
	}
	if _, _, ok := t.Normalize(s, true); ok {
		return false
	}
	// a listed id minus its -only / -or-later suffix is a corner the grammar leaves open
	low := strings.ToLower(s)
	if t.IsListedAny(low+"-only") || t.IsListedAny(low+"-or-later") {
		return false
	}
	for _, suf := range []string{"-only", "-or-later"} {
		if strings.HasSuffix(s, suf) && t.IsListedAny(strings.TrimSuffix(s, suf)) {
			return false
		}
	}
	return true
}

var unknownSeeds = []string{"FOO-or-later", "GPL-9.0-or-later", "Foo-only", "FOO", "foo", "NOPE-1.0", "GPL", "GPL-9.9", "MITT", "M", "mi", "Apache", "Apache-2", "x.y", "-", ".", "0", "GPL-2.0-or", "later", "only", "MIT-or", "andor", "wITH", "aND", "oR", "LicenseRef", "DocumentRef", "licenseref-a", "documentref-a", "INVALID"}

func (t *Tables) DrawUnknown(rt *rapid.T, label string) string {
	if rapid.IntRange(0, 2).Draw(rt, label+"Src") > 0 {
		s := rapid.SampledFrom(unknownSeeds).Draw(rt, label)
		if t.IsUnknownID(s) {
			return s
		}
	}
	if rapid.IntRange(0, 7).Draw(rt, label+"Long") == 0 {
		// longer than any listed id (and than any listed id plus a suffix)
		s := rapid.StringMatching(`[A-Za-z][A-Za-z0-9.-]{40,90}`).Draw(rt, label+"GenLong")
		if t.IsUnknownID(s) {
			return s
		}
	}
	s := rapid.StringMatching(`[A-Za-z0-9.-]{1,12}`).Draw(rt, label+"Gen")
	if rapid.IntRange(0, 3).Draw(rt, label+"Suffixed") == 0 {
		// an unknown id that carries one of the documented suffixes (the scanner then tries its base too)
		s = strings.TrimRight(s, "-") + rapid.SampledFrom([]string{"-or-later", "-only", "-only-or-later"}).Draw(rt, label+"Suffix")
	}
	if t.IsUnknownID(s) {
		return s
	}
	return "FOO"
}

var oddSeeds = []string{"eCos-2.0-only", "eCos-2.0-or-later", "MIT-OR-LATER", "MIT-ONLY", "ORMIT", "ANDMIT", "WITHMIT", "Bison-exception-2.2-only",
	"Bison-exception-2.2-or-later", "GFDL-1.1-invariants", "GFDL-1.1-invariants+", "GPL-2.0-with-GCC-exception-only", "Nunit-or-later", "wxWindows-only"}

// LicSpelling draws the token text of an asserted license spelling (no '+').
func (t *Tables) DrawLicSpelling(rt *rapid.T, label string) string {
	base := t.DrawBase(rt, label)
	form := rapid.SampledFrom([]string{"", "", "", "-only", "-or-later", "-or-later"}).Draw(rt, label+"Form")
	if !t.FormValid(base, form) {
		form = ""
	}
	return recase(base, drawCase(rt, label+"Case")) + form
}

// DrawTok draws one token; weights favour the tokens whose neighbourhoods have been fragile.
func (t *Tables) DrawTok(rt *rapid.T, label string, withOdd bool) Tok {
	max := 99
	if withOdd {
		max = 104
	}
	w := rapid.IntRange(0, max).Draw(rt, label+"Kind")
	switch {
	case w < 26:
		return Tok{kLIC, t.DrawLicSpelling(rt, label)}
	case w < 34:
		return Tok{kEXC, recase(rapid.SampledFrom(t.Exceptions).Draw(rt, label+"Exc"), drawCase(rt, label+"Case"))}
	case w < 38:
		return Tok{kUNK, t.DrawUnknown(rt, label)}
	case w < 40:
		return Tok{kLOWOP, rapid.SampledFrom([]string{"and", "or", "with", "And", "Or", "With"}).Draw(rt, label+"Low")}
	case w < 46:
		return Tok{kLREF, "LicenseRef-" + rapid.SampledFrom(refNames).Draw(rt, label+"Ref")}
	case w < 51:
		return Tok{kDREF, "DocumentRef-" + rapid.SampledFrom(docNames).Draw(rt, label+"Doc")}
	case w < 56:
		return Tok{kCOLON, ":"}
	case w < 63:
		return Tok{kLP, "("}
	case w < 70:
		return Tok{kRP, ")"}
	case w < 77:
		return Tok{kAND, "AND"}
	case w < 84:
		return Tok{kOR, "OR"}
	case w < 90:
		return Tok{kWITH, "WITH"}
	case w < 98:
		return Tok{kPLUS, "+"}
	case w < 100:
		return Tok{kSPLUS, "+"}
	}
	return Tok{kODD, rapid.SampledFrom(oddSeeds).Draw(rt, label+"Odd")}
}

func (t *Tables) DrawToks(rt *rapid.T, minLen, maxLen int, withOdd bool) []Tok {
	n := rapid.IntRange(minLen, maxLen).Draw(rt, "nToks")
	out := make([]Tok, n)
	for i := range out {
		out[i] = t.DrawTok(rt, fmt.Sprintf("k%d", i), withOdd)
	}
	return out
}

// TermToks is the token sequence of a term.
func TermToks(t Term) []Tok {
	if t.Kind == "ref" {
		var out []Tok
		if t.Doc != "" {
			out = append(out, Tok{kDREF, "DocumentRef-" + t.Doc}, Tok{kCOLON, ":"})
		}
		return append(out, Tok{kLREF, "LicenseRef-" + t.Ref})
	}
	out := []Tok{{kLIC, t.Spelling}}
	if t.PlusTok {
		out = append(out, Tok{kPLUS, "+"})
	}
	if t.Exc != "" {
		out = append(out, Tok{kWITH, "WITH"}, Tok{kEXC, t.ExcText})
	}
	return out
}

// TreeToks is the token sequence of a tree (same parenthesisation rules as Render).
func (n *Node) Toks(pool []Term) []Tok {
	return n.toks(pool, "")
}

func wrapToks(ts []Tok) []Tok {
	out := make([]Tok, 0, len(ts)+2)
	out = append(out, Tok{kLP, "("})
	out = append(out, ts...)
	return append(out, Tok{kRP, ")"})
}

func (n *Node) toks(pool []Term, parentOp string) []Tok {
	var s []Tok
	if n.IsLeaf() {
		s = TermToks(pool[n.Leaf])
	} else {
		parts := make([][]Tok, len(n.Kids))
		for i, k := range n.Kids {
			parts[i] = k.toks(pool, n.Op)
		}
		join := func(a, b []Tok) []Tok {
			out := append(append([]Tok{}, a...), Tok{n.Op, n.Op})
			return append(out, b...)
		}
		switch n.Group {
		case "left":
			s = parts[0]
			for i := 1; i < len(parts); i++ {
				if i > 1 {
					s = wrapToks(s)
				}
				s = join(s, parts[i])
			}
		case "right":
			s = parts[len(parts)-1]
			for i := len(parts) - 2; i >= 0; i-- {
				if i < len(parts)-2 {
					s = wrapToks(s)
				}
				s = join(parts[i], s)
			}
		default:
			s = parts[0]
			for i := 1; i < len(parts); i++ {
				s = join(s, parts[i])
			}
		}
		if n.Paren == 0 && parentOp == "AND" && n.Op == "OR" {
			s = wrapToks(s)
		}
	}
	for i := 0; i < n.Paren; i++ {
		s = wrapToks(s)
	}
	return s
}
