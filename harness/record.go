package harness

import (
	"encoding/binary"
	"encoding/json"
	"fmt"
	"hash/fnv"
	"os"
	"regexp"
	"sort"
	"strconv"
	"strings"
	"sync"
	"testing"

	"pgregory.net/rapid"
)

// ---------------------------------------------------------------------------------------------
// Run configuration (set by the driver through the environment)

type Config struct {
	Tier    string // quick | thorough
	Seed    int64
	Shard   int
	NShards int
	Out     string // result file for this process (JSON); "" = do not write
	Scale   float64
}

func Cfg() Config {
	c := Config{Tier: os.Getenv("VERIF_TIER"), NShards: 1, Scale: 1}
	if c.Tier != "thorough" {
		c.Tier = "quick"
	}
	c.Seed, _ = strconv.ParseInt(os.Getenv("VERIF_SEED"), 10, 64)
	c.Shard, _ = strconv.Atoi(os.Getenv("VERIF_SHARD"))
	if n, err := strconv.Atoi(os.Getenv("VERIF_NSHARDS")); err == nil && n > 0 {
		c.NShards = n
	}
	c.Out = os.Getenv("VERIF_OUT")
	if f, err := strconv.ParseFloat(os.Getenv("VERIF_SCALE"), 64); err == nil && f > 0 {
		c.Scale = f
	}
	return c
}

func (c Config) Thorough() bool { return c.Tier == "thorough" }

// Pick returns q in the quick tier and th in the thorough tier, scaled by VERIF_SCALE.
func (c Config) Pick(q, th int) int {
	n := q
	if c.Thorough() {
		n = th
	}
	n = int(float64(n) * c.Scale)
	if n < 1 {
		n = 1
	}
	return n
}

// ---------------------------------------------------------------------------------------------
// Recorder: counts what a check covered and collects violations; one per check (sub-check).

type Violation struct {
	Check string          `json:"check"` // name of the plain replay function
	Key   string          `json:"key"`   // finding key (deterministic, built from the failing input)
	Msg   string          `json:"msg"`
	Case  json.RawMessage `json:"case"`
}

type Recorder struct {
	mu         sync.Mutex
	Prop       string
	Name       string
	Rule       string
	Exhaustive bool

	evaluations int64
	nontrivial  int64
	classes     map[string]int64
	excluded    map[string]int64
	distinct    map[uint64]struct{}
	firstSamp   []any
	minSamp     []hashedSample // the few non-trivial cases with the smallest hashes
	violations  []Violation
	vioKeys     map[string]bool
	pending     *Violation // last failing case seen inside a rapid property (rapid ends on the minimal one)
	requested   int
	passed      int
	notes       []string
}

type hashedSample struct {
	h uint64
	v any
}

const (
	nFirstSamples = 4
	nMinSamples   = 4
	maxViolations = 40
)

func NewRecorder(prop, name, rule string) *Recorder {
	return &Recorder{Prop: prop, Name: name, Rule: rule,
		classes: map[string]int64{}, excluded: map[string]int64{}, distinct: map[uint64]struct{}{}, vioKeys: map[string]bool{}}
}

func hash64(s string) uint64 {
	h := fnv.New64a()
	h.Write([]byte(s))
	return h.Sum64()
}

// Case records one asserted case. canon identifies the case for distinctness; sample is what gets
// written to the evidence for a sampled case (nil = canon).
func (r *Recorder) Case(nontrivial bool, canon string, sample any, classes ...string) {
	r.mu.Lock()
	defer r.mu.Unlock()
	r.evaluations++
	for _, c := range classes {
		if c != "" {
			r.classes[c]++
		}
	}
	if !nontrivial {
		return
	}
	r.nontrivial++
	h := hash64(canon)
	if _, ok := r.distinct[h]; ok {
		return
	}
	r.distinct[h] = struct{}{}
	if sample == nil {
		sample = canon
	}
	if len(r.firstSamp) < nFirstSamples {
		r.firstSamp = append(r.firstSamp, sample)
		return
	}
	if len(r.minSamp) < nMinSamples {
		r.minSamp = append(r.minSamp, hashedSample{h, sample})
		sort.Slice(r.minSamp, func(i, j int) bool { return r.minSamp[i].h < r.minSamp[j].h })
	} else if h < r.minSamp[len(r.minSamp)-1].h {
		r.minSamp[len(r.minSamp)-1] = hashedSample{h, sample}
		sort.Slice(r.minSamp, func(i, j int) bool { return r.minSamp[i].h < r.minSamp[j].h })
	}
}

// Count adds evaluations that are part of an already recorded case (e.g. the calls of a sweep).
func (r *Recorder) Count(n int64, classes ...string) {
	r.mu.Lock()
	defer r.mu.Unlock()
	r.evaluations += n
	for _, c := range classes {
		r.classes[c] += n
	}
}

// Tally adds n to a class counter without counting an evaluation.
func (r *Recorder) Tally(c string, n int64) {
	r.mu.Lock()
	r.classes[c] += n
	r.mu.Unlock()
}

func (r *Recorder) Class(c string) {
	r.mu.Lock()
	r.classes[c]++
	r.mu.Unlock()
}

func (r *Recorder) Exclude(why string) {
	r.mu.Lock()
	r.excluded[why]++
	r.mu.Unlock()
}

func (r *Recorder) Note(format string, a ...any) {
	r.mu.Lock()
	r.notes = append(r.notes, fmt.Sprintf(format, a...))
	r.mu.Unlock()
}

// Violate records a violation found outside rapid (sweeps, corpus, enumerations).
func (r *Recorder) Violate(check, key, msg string, c any) {
	raw, err := json.Marshal(c)
	if err != nil {
		raw, _ = json.Marshal(fmt.Sprintf("%+v", c))
	}
	r.mu.Lock()
	defer r.mu.Unlock()
	if r.vioKeys[key] || len(r.violations) >= maxViolations {
		return
	}
	r.vioKeys[key] = true
	r.violations = append(r.violations, Violation{Check: check, Key: key, Msg: msg, Case: raw})
}

func (r *Recorder) NViolations() int {
	r.mu.Lock()
	defer r.mu.Unlock()
	return len(r.violations)
}

// Fail is called from inside a rapid property: it remembers the failing case and fails the case.
// rapid re-runs the property while shrinking and finishes on the minimal failing case, so the last
// remembered case is the shrunk one.
func (r *Recorder) Fail(t *rapid.T, check, key, msg string, c any) {
	raw, err := json.Marshal(c)
	if err != nil {
		raw, _ = json.Marshal(fmt.Sprintf("%+v", c))
	}
	r.mu.Lock()
	r.pending = &Violation{Check: check, Key: key, Msg: msg, Case: raw}
	r.mu.Unlock()
	// a stable message: rapid only keeps shrinking while the failure "stays the same"
	t.Fatalf("violation found by check %s", check)
}

// softTB lets rapid.Check report into the recorder instead of failing the go test directly.
type softTB struct {
	*testing.T
	failed bool
	errs   []string
	logs   []string
}

func (s *softTB) Errorf(format string, args ...any) {
	s.failed = true
	s.errs = append(s.errs, fmt.Sprintf(format, args...))
}
func (s *softTB) Error(args ...any) { s.failed = true; s.errs = append(s.errs, fmt.Sprint(args...)) }
func (s *softTB) Fatalf(format string, args ...any) {
	s.Errorf(format, args...)
}
func (s *softTB) Fatal(args ...any)             { s.Error(args...) }
func (s *softTB) FailNow()                      { s.failed = true }
func (s *softTB) Fail()                         { s.failed = true }
func (s *softTB) Failed() bool                  { return s.failed }
func (s *softTB) Logf(f string, args ...any)    { s.logs = append(s.logs, fmt.Sprintf(f, args...)) }
func (s *softTB) Log(args ...any)               { s.logs = append(s.logs, fmt.Sprint(args...)) }
func (s *softTB) Skipf(f string, args ...any)   { s.T.Skipf(f, args...) }
func (s *softTB) Skip(args ...any)              { s.T.Skip(args...) }
func (s *softTB) SkipNow()                      { s.T.SkipNow() }
func (s *softTB) Helper()                       {}
func (s *softTB) Name() string                  { return s.T.Name() }

var passedRe = regexp.MustCompile(`OK, passed (\d+) tests`)

// RapidRequested is the number of cases rapid was asked for (the -rapid.checks flag).
func RapidRequested() int {
	for _, a := range os.Args {
		if strings.HasPrefix(a, "-rapid.checks=") {
			n, _ := strconv.Atoi(strings.TrimPrefix(a, "-rapid.checks="))
			return n
		}
	}
	return 100
}

// Rapid runs prop under rapid.Check and converts a failure into a recorded violation.
func (r *Recorder) Rapid(t *testing.T, prop func(*rapid.T)) {
	s := &softTB{T: t}
	rapid.Check(s, prop)
	r.mu.Lock()
	defer r.mu.Unlock()
	r.requested += RapidRequested()
	for _, l := range s.logs {
		if m := passedRe.FindStringSubmatch(l); m != nil {
			n, _ := strconv.Atoi(m[1])
			r.passed += n
		}
	}
	if !s.failed {
		return
	}
	if r.pending != nil {
		v := *r.pending
		r.pending = nil
		if !r.vioKeys[v.Key] {
			r.vioKeys[v.Key] = true
			r.violations = append(r.violations, v)
		}
		return
	}
	// rapid failed without a recorded case: a panic inside the harness or a generator problem.
	msg := strings.Join(s.errs, "\n")
	if len(msg) > 4000 {
		msg = msg[:4000]
	}
	r.notes = append(r.notes, "rapid failure without recorded case: "+msg)
	r.violations = append(r.violations, Violation{Check: "harness-error", Key: r.Prop + "/harness-error/" + r.Name, Msg: msg, Case: json.RawMessage(`null`)})
}

// ---------------------------------------------------------------------------------------------
// Result file

type CheckResult struct {
	Name        string           `json:"name"`
	Rule        string           `json:"rule"`
	Exhaustive  bool             `json:"exhaustive"`
	Evaluations int64            `json:"evaluations"`
	Nontrivial  int64            `json:"nontrivial"`
	Distinct    int              `json:"distinct_nontrivial"`
	Classes     map[string]int64 `json:"classes"`
	Excluded    map[string]int64 `json:"excluded"`
	Samples     []any            `json:"samples"`
	Violations  []Violation      `json:"violations"`
	Requested   int              `json:"rapid_requested"`
	Passed      int              `json:"rapid_passed"`
	Notes       []string         `json:"notes,omitempty"`
	HashFile    string           `json:"hash_file,omitempty"`
}

type Result struct {
	Prop   string        `json:"prop"`
	Unit   string        `json:"unit"`
	Shard  int           `json:"shard"`
	Tier   string        `json:"tier"`
	Checks []CheckResult `json:"checks"`
}

var (
	resultMu sync.Mutex
	results  = map[string]*Result{}
)

// Finish adds the recorder to this process's result file (rewritten each time) and, when run
// outside the driver (no VERIF_OUT), fails the go test on violations so that `go test` is usable
// by hand.
func (r *Recorder) Finish(t *testing.T) {
	cfg := Cfg()
	r.mu.Lock()
	cr := CheckResult{Name: r.Name, Rule: r.Rule, Exhaustive: r.Exhaustive, Evaluations: r.evaluations, Nontrivial: r.nontrivial,
		Distinct: len(r.distinct), Classes: r.classes, Excluded: r.excluded, Violations: r.violations,
		Requested: r.requested, Passed: r.passed, Notes: r.notes}
	cr.Samples = append(cr.Samples, r.firstSamp...)
	for _, s := range r.minSamp {
		cr.Samples = append(cr.Samples, s.v)
	}
	hashes := make([]uint64, 0, len(r.distinct))
	for h := range r.distinct {
		hashes = append(hashes, h)
	}
	r.mu.Unlock()

	if cfg.Out == "" {
		for _, v := range cr.Violations {
			t.Errorf("VIOLATION %s [%s] %s\ncase: %s", v.Key, v.Check, v.Msg, v.Case)
		}
		t.Logf("%s/%s: evaluations=%d distinct_nontrivial=%d classes=%v excluded=%v", r.Prop, r.Name, cr.Evaluations, cr.Distinct, cr.Classes, cr.Excluded)
		return
	}
	// hashes go to a side file so the driver can count distinct cases across shards
	cr.HashFile = fmt.Sprintf("%s.%s.hashes", cfg.Out, r.Name)
	buf := make([]byte, 8*len(hashes))
	for i, h := range hashes {
		binary.LittleEndian.PutUint64(buf[8*i:], h)
	}
	if err := os.WriteFile(cr.HashFile, buf, 0o644); err != nil {
		t.Fatalf("write hashes: %v", err)
	}
	resultMu.Lock()
	defer resultMu.Unlock()
	res := results[cfg.Out]
	if res == nil {
		res = &Result{Prop: r.Prop, Unit: t.Name(), Shard: cfg.Shard, Tier: cfg.Tier}
		results[cfg.Out] = res
	}
	res.Checks = append(res.Checks, cr)
	data, _ := json.MarshalIndent(res, "", " ")
	tmp := cfg.Out + ".tmp"
	if err := os.WriteFile(tmp, data, 0o644); err != nil {
		t.Fatalf("write result: %v", err)
	}
	if err := os.Rename(tmp, cfg.Out); err != nil {
		t.Fatalf("rename result: %v", err)
	}
}
