package harness

import (
	"fmt"
	"strings"

	"pgregory.net/rapid"
)

// ---------------------------------------------------------------------------------------------
// §3.1 Terms and the reference normaliser

// Term is one generated single-term expression together with what it denotes.
type Term struct {
	Text string `json:"text"`           // rendered, e.g. "gpl-2.0-or-later WITH Bison-exception-2.2"
	Kind string `json:"kind"`           // "lic" | "ref"
	ID   string `json:"id,omitempty"`   // normalised listed id the spelling denotes (lic)
	Plus bool   `json:"plus,omitempty"` // term allows later versions
	Exc  string `json:"exc,omitempty"`  // listed exception id (list casing) or ""
	Doc  string `json:"doc,omitempty"`  // DocumentRef name or ""
	Ref  string `json:"ref,omitempty"`  // LicenseRef name (ref)
	Base string `json:"base,omitempty"` // listed id the spelling was built from
	Form string `json:"form,omitempty"` // "", "+", "-only", "-or-later", "-or-later+"
	// the term's own token texts
	Spelling string `json:"spelling,omitempty"` // id text without '+'
	PlusTok  bool   `json:"plus_tok,omitempty"` // a '+' abuts the spelling
	ExcText  string `json:"exc_text,omitempty"` // exception as spelled
}

// Normalize states the documented meaning of a license spelling (comment block above the
// library's normalizeLicense): listed active id wins; "X-only" is X when X is active; "X+" is the
// listed "X-or-later" when that is active (and X is not); "X-or-later" is "X+" when X is active;
// finally a deprecated id denotes itself. An id ending in "-or-later" implies plus.
// spelling excludes a trailing '+'; plus says whether one directly follows.
func (t *Tables) Normalize(spelling string, plus bool) (id string, hasPlus bool, ok bool) {
	if l, found := t.ActiveID(spelling); found {
		return l, plus || strings.HasSuffix(l, "-or-later"), true
	}
	if _, isExc := t.ExceptionID(spelling); isExc {
		return "", false, false
	}
	if strings.HasSuffix(spelling, "-only") {
		if l, found := t.ActiveID(strings.TrimSuffix(spelling, "-only")); found {
			return l, plus || strings.HasSuffix(l, "-or-later"), true
		}
	}
	if plus {
		if l, found := t.ActiveID(spelling + "-or-later"); found {
			return l, true, true
		}
	}
	if strings.HasSuffix(spelling, "-or-later") {
		if l, found := t.ActiveID(strings.TrimSuffix(spelling, "-or-later")); found {
			return l, true, true
		}
	}
	if l, found := t.DeprecatedID(spelling); found {
		return l, plus || strings.HasSuffix(l, "-or-later"), true
	}
	return "", false, false
}

// FormValid says whether base+form is one of the spellings whose validity the properties fix
// (§3.1): every form for an active base; for a deprecated-only base the bare id and '+', and a
// suffix only when the suffixed id is itself listed.
func (t *Tables) FormValid(base, form string) bool {
	if _, ok := t.ActiveID(base); ok {
		return true
	}
	switch form {
	case "", "+":
		return true
	case "-only":
		return t.IsListedLicense(base + "-only")
	case "-or-later", "-or-later+":
		return t.IsListedLicense(base + "-or-later")
	}
	return false
}

var licForms = []string{"", "", "", "+", "+", "-only", "-or-later", "-or-later", "-or-later+"}

// recase applies a case variant to a listed id: 0 as listed, 1 lower, 2 upper, >=3 mixed by bits.
func recase(s string, variant uint32) string {
	switch variant {
	case 0:
		return s
	case 1:
		return strings.ToLower(s)
	case 2:
		return strings.ToUpper(s)
	}
	b := []byte(s)
	bits := variant
	for i, c := range b {
		if bits&1 == 1 {
			if c >= 'a' && c <= 'z' {
				b[i] = c - 32
			} else if c >= 'A' && c <= 'Z' {
				b[i] = c + 32
			}
		}
		bits = bits>>1 | bits<<31
	}
	return string(b)
}

func drawCase(t *rapid.T, label string) uint32 {
	switch rapid.IntRange(0, 9).Draw(t, label) {
	case 0, 1, 2, 3, 4:
		return 0
	case 5, 6:
		return 1
	case 7:
		return 2
	}
	return rapid.Uint32Range(3, 1<<31).Draw(t, label+"bits")
}

// MakeLicTerm builds a license term from a listed base id, a form, case variants and an optional
// listed exception. withSp is the text between id and WITH / WITH and exception (>= 1 space).
func (t *Tables) MakeLicTerm(base, form string, caseV uint32, exc string, excCaseV uint32, sp1, sp2 string) Term {
	spelling := recase(base, caseV)
	plus := false
	switch form {
	case "+":
		plus = true
	case "-only":
		spelling += "-only"
	case "-or-later":
		spelling += "-or-later"
	case "-or-later+":
		spelling += "-or-later"
		plus = true
	}
	id, hasPlus, ok := t.Normalize(spelling, plus)
	if !ok {
		panic(fmt.Sprintf("harness: MakeLicTerm built an unlisted spelling %q (base %q form %q)", spelling, base, form))
	}
	text := spelling
	if plus {
		text += "+"
	}
	term := Term{Kind: "lic", ID: id, Plus: hasPlus, Base: base, Form: form, Spelling: spelling, PlusTok: plus}
	if exc != "" {
		if sp1 == "" {
			sp1 = " "
		}
		if sp2 == "" {
			sp2 = " "
		}
		term.ExcText = recase(exc, excCaseV)
		text += sp1 + "WITH" + sp2 + term.ExcText
		term.Exc = exc
	}
	term.Text = text
	return term
}

func MakeRefTerm(doc, ref string) Term {
	text := "LicenseRef-" + ref
	if doc != "" {
		text = "DocumentRef-" + doc + ":" + text
	}
	return Term{Kind: "ref", Doc: doc, Ref: ref, Text: text}
}

var refNames = []string{"a", "A", "x", "MIT", "MIT-Style-2", "b.c", "1", "AND", "x-or-later", "Apache-2.0", "MIT-or-later", "Apache-2.0-or-later", "GPL-2.0-only", "WITH", "or-later"}
var docNames = []string{"d", "D", "spdx-tool-1.2", "x", "LicenseRef-a"}

// DrawBase draws a listed license id, biased towards ids that sit in a version family.
func (t *Tables) DrawBase(rt *rapid.T, label string) string {
	switch rapid.IntRange(0, 9).Draw(rt, label+"Src") {
	case 0, 1, 2, 3, 4, 5:
		return rapid.SampledFrom(t.FamilyIDs).Draw(rt, label)
	case 6, 7:
		return rapid.SampledFrom(t.UnrelatedIDs()).Draw(rt, label)
	case 8:
		// the deprecated list is short and its ids take their own paths through the scanner
		var dep []string
		for _, id := range t.Deprecated {
			if idShaped(id) {
				dep = append(dep, id)
			}
		}
		if len(dep) > 0 {
			return rapid.SampledFrom(dep).Draw(rt, label)
		}
	}
	return rapid.SampledFrom(t.AllLic).Draw(rt, label)
}

func drawSpaces(rt *rapid.T, label string, min, max int) string {
	n := min
	if rapid.IntRange(0, 3).Draw(rt, label+"Var") == 0 {
		n = rapid.IntRange(min, max).Draw(rt, label)
	}
	return strings.Repeat(" ", n)
}

// DrawLicTermOf draws a spelling (form, case, exception) for the given base.
func (t *Tables) DrawLicTermOf(rt *rapid.T, base string, excPool []string, label string) Term {
	form := rapid.SampledFrom(licForms).Draw(rt, label+"Form")
	if !t.FormValid(base, form) {
		form = ""
		if rapid.Bool().Draw(rt, label+"FormAlt") {
			form = "+"
		}
	}
	cv := drawCase(rt, label+"Case")
	exc := ""
	var ecv uint32
	if len(excPool) > 0 && rapid.IntRange(0, 3).Draw(rt, label+"HasExc") == 0 {
		exc = rapid.SampledFrom(excPool).Draw(rt, label+"Exc")
		ecv = drawCase(rt, label+"ExcCase")
	}
	sp1, sp2 := " ", " "
	if exc != "" {
		sp1 = drawSpaces(rt, label+"Sp1", 1, 3)
		sp2 = drawSpaces(rt, label+"Sp2", 1, 3)
	}
	return t.MakeLicTerm(base, form, cv, exc, ecv, sp1, sp2)
}

func DrawRefTerm(rt *rapid.T, label string) Term {
	doc := ""
	if rapid.IntRange(0, 2).Draw(rt, label+"HasDoc") == 0 {
		doc = rapid.SampledFrom(docNames).Draw(rt, label+"Doc")
	}
	return MakeRefTerm(doc, rapid.SampledFrom(refNames).Draw(rt, label+"Ref"))
}

// DrawExcPool draws the 1-2 exceptions a case may use (so that equal exceptions recur).
func (t *Tables) DrawExcPool(rt *rapid.T) []string {
	n := rapid.IntRange(1, 2).Draw(rt, "nExc")
	out := make([]string, n)
	for i := range out {
		out[i] = rapid.SampledFrom(t.Exceptions).Draw(rt, fmt.Sprintf("exc%d", i))
	}
	return out
}

// DrawPool draws the 1-7 terms a case builds its expression from. Related terms (same family,
// re-spellings of the same id) are over-represented so that '+' and normalisation matter.
func (t *Tables) DrawPool(rt *rapid.T, excPool []string) []Term {
	n := rapid.IntRange(1, 7).Draw(rt, "poolSize")
	pool := make([]Term, 0, n)
	var bases []string
	for i := 0; i < n; i++ {
		label := fmt.Sprintf("t%d", i)
		kind := rapid.IntRange(0, 9).Draw(rt, label+"Kind")
		var earlierRefs []Term
		for _, e := range pool {
			if e.Kind == "ref" {
				earlierRefs = append(earlierRefs, e)
			}
		}
		switch {
		case kind <= 2 && len(earlierRefs) > 0 && rapid.Bool().Draw(rt, label+"RefSibling"):
			// a sibling of an earlier reference: other case, other / no DocumentRef
			pool = append(pool, t.sibling(rt, rapid.SampledFrom(earlierRefs).Draw(rt, label+"RefSibOf"), excPool, label))
		case kind <= 1:
			ref := DrawRefTerm(rt, label)
			if len(pool) > 0 && rapid.IntRange(0, 3).Draw(rt, label+"Lookalike") == 0 {
				// a reference whose name is the spelling of one of the case's own license terms
				if src := rapid.SampledFrom(pool).Draw(rt, label+"LookSrc"); src.Kind == "lic" {
					if rapid.Bool().Draw(rt, label+"LookDoc") {
						ref = MakeRefTerm(src.Spelling, ref.Ref)
					} else {
						ref = MakeRefTerm(ref.Doc, src.Spelling)
					}
				}
			}
			pool = append(pool, ref)
		case kind <= 4 && len(bases) > 0:
			// relative of an earlier base: same id re-spelled, or another version of its family
			b := rapid.SampledFrom(bases).Draw(rt, label+"Rel")
			rel := t.Relatives(b)
			base := rapid.SampledFrom(rel).Draw(rt, label+"RelBase")
			pool = append(pool, t.DrawLicTermOf(rt, base, excPool, label))
		default:
			base := t.DrawBase(rt, label)
			bases = append(bases, base)
			pool = append(pool, t.DrawLicTermOf(rt, base, excPool, label))
		}
	}
	return pool
}

// Relatives returns base itself plus every scannable listed id of the same table family (every
// position of it) — the ids whose relation to base depends on versions and '+'.
func (t *Tables) Relatives(base string) []string {
	out := []string{base}
	seen := map[string]bool{base: true}
	for _, key := range []string{base, strings.TrimSuffix(base, "-or-later"), strings.TrimSuffix(base, "-only")} {
		for _, p := range t.Positions(key) {
			for _, grp := range t.Ranges[p[0]] {
				for _, id := range grp {
					if !seen[id] && idShaped(id) && t.IsListedLicense(id) {
						seen[id] = true
						out = append(out, id)
					}
				}
			}
		}
	}
	return out
}

// Cousins returns the scannable listed ids that share base's name stem (the text before its version
// number) without being in one of base's table families.
func (t *Tables) Cousins(base string) []string {
	v := ParseVer(base)
	if !v.OK {
		return nil
	}
	in := map[string]bool{}
	for _, r := range t.Relatives(base) {
		in[r] = true
	}
	var out []string
	for _, id := range t.AllLic {
		if w := ParseVer(id); w.OK && w.Stem == v.Stem && !in[id] {
			out = append(out, id)
		}
	}
	return out
}

// DrawAllowed draws an allowed list for a pool: entries that can match the pool's terms (same id
// in other spellings, other versions with and without '+', same / other / no exception, same /
// other / no DocumentRef), unrelated ids, duplicates; 1..maxLen entries in generated order.
func (t *Tables) DrawAllowed(rt *rapid.T, pool []Term, excPool []string, maxLen int) []Term {
	n := rapid.IntRange(1, maxLen).Draw(rt, "allowedLen")
	out := make([]Term, 0, n)
	for i := 0; i < n; i++ {
		label := fmt.Sprintf("a%d", i)
		k := rapid.IntRange(0, 11).Draw(rt, label+"Kind")
		src := rapid.SampledFrom(pool).Draw(rt, label+"Src")
		switch {
		case k == 0 && len(out) > 0: // duplicate of an earlier entry, mostly right next to it
			if rapid.Bool().Draw(rt, label+"Adjacent") {
				out = append(out, out[len(out)-1])
			} else {
				out = append(out, rapid.SampledFrom(out).Draw(rt, label+"Dup"))
			}
		case k == 11 && len(out) > 0: // sibling of an earlier entry: one attribute changed
			out = append(out, t.sibling(rt, rapid.SampledFrom(out).Draw(rt, label+"SibOf"), excPool, label))
		case k == 1: // unrelated id
			out = append(out, t.MakeLicTerm(rapid.SampledFrom(t.UnrelatedIDs()).Draw(rt, label+"Unrel"), "", 0, "", 0, "", ""))
		case k == 2: // the very term
			out = append(out, src)
		case src.Kind == "ref":
			switch rapid.IntRange(0, 3).Draw(rt, label+"RefKind") {
			case 0:
				out = append(out, src)
			case 1:
				out = append(out, MakeRefTerm("", src.Ref))
			case 2:
				out = append(out, MakeRefTerm(rapid.SampledFrom(docNames).Draw(rt, label+"Doc"), src.Ref))
			default:
				out = append(out, DrawRefTerm(rt, label))
			}
		default:
			rel := t.Relatives(src.Base)
			// plus the listed ids that share the name stem but sit outside the table family
			// (CC-BY-3.0-US, OFL-1.0-RFN, GPL-2.0-with-classpath-exception, ...): they sort between the
			// family's members and must neither match nor get in the way
			rel = append(append([]string{}, rel...), t.Cousins(src.Base)...)
			base := src.Base
			if rapid.IntRange(0, 2).Draw(rt, label+"OtherVer") > 0 {
				base = rapid.SampledFrom(rel).Draw(rt, label+"Base")
			}
			// exception: mostly the source's own, sometimes another / none
			pool2 := excPool
			term := t.DrawLicTermOf(rt, base, nil, label)
			switch rapid.IntRange(0, 5).Draw(rt, label+"ExcKind") {
			case 0, 1, 2, 3:
				if src.Exc != "" {
					term = t.withExc(term, src.Exc, drawCase(rt, label+"ExcCase"))
				}
			case 4:
				if len(pool2) > 0 {
					term = t.withExc(term, rapid.SampledFrom(pool2).Draw(rt, label+"Exc"), 0)
				}
			}
			out = append(out, term)
		}
	}
	return out
}

// sibling varies exactly one attribute of an entry: its exception, its '+', its case, or (for a
// reference) its DocumentRef or the case of its name — the entries that a lossy de-duplication,
// sort key or cache key would confuse with the original.
func (t *Tables) sibling(rt *rapid.T, e Term, excPool []string, label string) Term {
	if e.Kind == "ref" {
		switch rapid.IntRange(0, 3).Draw(rt, label+"SibRef") {
		case 3:
			// the boundary between document name and reference name moved: the two terms have the same
			// concatenation (with or without a '-' between the parts) but are different references - what a
			// de-duplication / cache key built by joining the two names confuses
			if e.Doc == "" {
				if i := strings.Index(e.Ref, "-"); i > 0 && i < len(e.Ref)-1 {
					return MakeRefTerm(e.Ref[:i], e.Ref[i+1:])
				}
				return MakeRefTerm(e.Ref, e.Ref)
			}
			if i := strings.Index(e.Ref, "-"); i > 0 && i < len(e.Ref)-1 && rapid.Bool().Draw(rt, label+"SibShiftRight") {
				return MakeRefTerm(e.Doc+"-"+e.Ref[:i], e.Ref[i+1:])
			}
			if i := strings.LastIndex(e.Doc, "-"); i > 0 && i < len(e.Doc)-1 {
				return MakeRefTerm(e.Doc[:i], e.Doc[i+1:]+"-"+e.Ref)
			}
			if len(e.Ref) > 1 {
				return MakeRefTerm(e.Doc+e.Ref[:1], e.Ref[1:])
			}
			return MakeRefTerm(e.Doc+"-"+e.Ref, e.Ref)
		case 0:
			if e.Doc == "" || rapid.Bool().Draw(rt, label+"SibOtherDoc") {
				d := rapid.SampledFrom(docNames).Draw(rt, label+"SibDoc")
				if d == e.Doc {
					d += "2"
				}
				return MakeRefTerm(d, e.Ref)
			}
			return MakeRefTerm("", e.Ref)
		case 1:
			return MakeRefTerm(e.Doc, recase(e.Ref, 2))
		}
		return MakeRefTerm(recase(e.Doc, 2), e.Ref)
	}
	form, exc := e.Form, e.Exc
	cv := uint32(0)
	switch rapid.IntRange(0, 3).Draw(rt, label+"SibLic") {
	case 0: // other exception / none
		if exc == "" {
			exc = rapid.SampledFrom(t.Exceptions).Draw(rt, label+"SibExcNew")
		} else if rapid.Bool().Draw(rt, label+"SibExcDrop") {
			exc = ""
		} else {
			exc = rapid.SampledFrom(append(append([]string{}, excPool...), t.Exceptions[0], t.Exceptions[len(t.Exceptions)-1])).Draw(rt, label+"SibExc")
		}
	case 1: // toggle '+'
		switch form {
		case "":
			form = "+"
		case "+":
			form = ""
		case "-only":
			form = "-or-later"
		default:
			form = "-only"
		}
		if !t.FormValid(e.Base, form) {
			form = "+"
		}
	case 2:
		cv = drawCase(rt, label+"SibCase") + 1
	default: // another version of the family, same exception
		base := rapid.SampledFrom(t.Relatives(e.Base)).Draw(rt, label+"SibBase")
		if !t.FormValid(base, form) {
			form = ""
		}
		return t.MakeLicTerm(base, form, 0, exc, 0, " ", " ")
	}
	return t.MakeLicTerm(e.Base, form, cv, exc, 0, " ", " ")
}

// PadAllowed makes a long allowed list (16-48 entries) out of a short one: unrelated listed ids are
// inserted at generated positions (implementations may switch strategy for long lists).
func (t *Tables) PadAllowed(rt *rapid.T, list []Term) []Term {
	target := rapid.IntRange(16, 48).Draw(rt, "padTo")
	out := append([]Term{}, list...)
	for i := 0; len(out) < target; i++ {
		id := rapid.SampledFrom(t.Active).Draw(rt, fmt.Sprintf("pad%d", i))
		if !idShaped(id) || len(t.Positions(id)) > 0 || strings.HasSuffix(id, "-only") || strings.HasSuffix(id, "-or-later") {
			id = t.UnrelatedIDs()[i%len(t.UnrelatedIDs())]
		}
		pos := rapid.IntRange(0, len(out)).Draw(rt, fmt.Sprintf("padPos%d", i))
		out = append(append(append([]Term{}, out[:pos]...), t.MakeLicTerm(id, "", 0, "", 0, "", "")), out[pos:]...)
	}
	return out
}

func (t *Tables) withExc(term Term, exc string, cv uint32) Term {
	if term.Kind != "lic" || term.Exc != "" {
		return term
	}
	term.ExcText = recase(exc, cv)
	term.Text += " WITH " + term.ExcText
	term.Exc = exc
	return term
}

func Texts(ts []Term) []string {
	out := make([]string, len(ts))
	for i, t := range ts {
		out[i] = t.Text
	}
	return out
}

// ---------------------------------------------------------------------------------------------
// §3.5 Reference matcher

// famVer returns the family and version-group index of a normalised id in the shipped table.
func (t *Tables) famVer(id string) (fam, ver int, ok bool) {
	ps := t.Positions(id)
	if len(ps) == 0 {
		return 0, 0, false
	}
	return ps[0][0], ps[0][1], true
}

// Match is the documented single-term matching relation (C02), read against the shipped table.
func (t *Tables) Match(a, b Term) bool {
	if a.Kind != b.Kind {
		return false
	}
	if a.Kind == "ref" {
		return a.Ref == b.Ref && a.Doc == b.Doc
	}
	if a.Exc != b.Exc {
		return false
	}
	if a.ID == b.ID {
		return true
	}
	fa, va, oka := t.famVer(a.ID)
	fb, vb, okb := t.famVer(b.ID)
	if !oka || !okb || fa != fb {
		return false
	}
	switch {
	case a.Plus && b.Plus:
		return true
	case a.Plus:
		return vb >= va
	case b.Plus:
		return va >= vb
	}
	return va == vb
}
