package harness

import (
	"encoding/json"
	"fmt"
	"os"
	"os/exec"
	"path/filepath"
	"strings"
	"testing"

	"pgregory.net/rapid"
)

// Order independence across processes: the same workload is executed in different orders in
// FRESH child processes and the answers are compared call by call. Within one process package
// state cannot be reset, so a call that is poisoned by an earlier one is consistently poisoned
// there; two processes with different orders expose it.

type Workload struct {
	Calls  []PCall `json:"calls"`
	Orders [][]int `json:"orders"` // each a permutation of the call indexes
}

func init() { registerReplay("c13-orders", checkC13Orders) }

// TestC13_OrderChild is the child half: executes VERIF_WORKLOAD in the order VERIF_ORDER_IDX.
func TestC13_OrderChild(t *testing.T) {
	path := os.Getenv("VERIF_WORKLOAD")
	if path == "" {
		t.Skip("VERIF_WORKLOAD not set")
	}
	data, err := os.ReadFile(path)
	if err != nil {
		t.Fatal(err)
	}
	var w Workload
	if err := json.Unmarshal(data, &w); err != nil {
		t.Fatal(err)
	}
	var idx int
	fmt.Sscanf(os.Getenv("VERIF_ORDER_IDX"), "%d", &idx)
	results := make([]string, len(w.Calls))
	for _, ci := range w.Orders[idx] {
		c := w.Calls[ci]
		lc := &liveCall{fn: c.Fn, expr: c.Expr.S(), n: len(c.List), isNil: c.Nil && len(c.List) == 0}
		for _, e := range c.List {
			lc.backing = append(lc.backing, e.S())
		}
		results[ci] = lc.exec()
	}
	out, _ := json.Marshal(results)
	if err := os.WriteFile(os.Getenv("VERIF_ORDER_OUT"), out, 0o644); err != nil {
		t.Fatal(err)
	}
}

func runOrder(w Workload, wlPath string, idx int) ([]string, error) {
	outPath := fmt.Sprintf("%s.out%d", wlPath, idx)
	defer os.Remove(outPath)
	cmd := exec.Command(os.Args[0], "-test.run", "^TestC13_OrderChild$", "-test.count=1", "-test.timeout=600s")
	cmd.Env = append(os.Environ(), "VERIF_WORKLOAD="+wlPath, fmt.Sprintf("VERIF_ORDER_IDX=%d", idx), "VERIF_ORDER_OUT="+outPath, "VERIF_OUT=", "VERIF_REPLAY=")
	if out, err := cmd.CombinedOutput(); err != nil {
		return nil, fmt.Errorf("child failed: %v\n%s", err, firstN(string(out), 3000))
	}
	data, err := os.ReadFile(outPath)
	if err != nil {
		return nil, err
	}
	var res []string
	return res, json.Unmarshal(data, &res)
}

func checkC13Orders(w Workload) Outcome {
	dir, err := os.MkdirTemp("", "verif-orders-")
	if err != nil {
		return fail("C13/harness", "%v", err)
	}
	defer os.RemoveAll(dir)
	wlPath := filepath.Join(dir, "workload.json")
	data, _ := json.Marshal(w)
	os.WriteFile(wlPath, data, 0o644)
	var first []string
	for oi := range w.Orders {
		res, err := runOrder(w, wlPath, oi)
		if err != nil {
			if strings.Contains(err.Error(), "DATA RACE") || strings.Contains(err.Error(), "fatal error") {
				return fail("C13/child-crash", "a sequential workload crashed the child process: %v", err)
			}
			return fail("C13/harness", "%v", err)
		}
		if first == nil {
			first = res
			continue
		}
		for ci := range res {
			if res[ci] != first[ci] {
				pos := func(order []int) int {
					for p, x := range order {
						if x == ci {
							return p
						}
					}
					return -1
				}
				var before []string
				o := w.Orders[oi]
				for _, x := range o[:pos(o)] {
					before = append(before, w.Calls[x].describe())
				}
				if len(before) > 12 {
					before = before[len(before)-12:]
				}
				return fail("C13/order/"+w.Calls[ci].describe(), "%s returns %s when it is call #%d of a fresh process (order 0) but %s when it is call #%d (order %d), i.e. after: %s",
					w.Calls[ci].describe(), first[ci], pos(w.Orders[0])+1, res[ci], pos(o)+1, oi, strings.Join(before, "; "))
			}
		}
	}
	return pass()
}

// neighbours derives strings that a lossy cache / normalisation key would confuse with s.
func neighbours(rt *rapid.T, s string, label string) []string {
	var out []string
	add := func(v string) {
		if v != s {
			out = append(out, v)
		}
	}
	add(s + "+")
	add(strings.TrimSuffix(s, "+"))
	add(strings.ToLower(s))
	add(strings.ToUpper(s))
	add(" " + s)
	add(s + "  ")
	add(strings.Replace(s, " ", "\t", 1))
	add(strings.Replace(s, " ", "  ", 1))
	add(s + "\n")
	add(strings.Replace(s, "-or-later", "+", 1))
	add(strings.Replace(s, "-only", "", 1))
	add(strings.Replace(s, "+", "-or-later", 1))
	add("(" + s + ")")
	if i := strings.Index(s, "Ref-"); i >= 0 && i+5 <= len(s) {
		b := []byte(s)
		c := b[i+4]
		if c >= 'a' && c <= 'z' {
			b[i+4] = c - 32
		} else if c >= 'A' && c <= 'Z' {
			b[i+4] = c + 32
		}
		add(string(b))
	}
	if i := strings.Index(s, ":"); i >= 0 {
		add(s[i+1:])
	}
	// keep a generated handful
	k := rapid.IntRange(2, 5).Draw(rt, label+"nNb")
	if len(out) > k {
		out = rapid.Permutation(out).Draw(rt, label+"nb")[:k]
	}
	return out
}

func TestC13_Orders(t *testing.T) {
	rec := NewRecorder("C13", "orders", "a rapid-generated workload (3-5 base strings from the C04 mix plus their confusable neighbours: '+' added/removed, case, blanks/tab/LF, -or-later <-> +, -only dropped, parentheses, reference-name case, DocumentRef dropped; calls: Validate / Extract / Satisfies with each string as expression and as allowed entry, plus lists with repeats and permutations) is executed in three orders (as generated, reversed, generated shuffle) in three FRESH child processes; oracle: every call returns the same result in every order; non-trivial = every workload; distinct by workload")
	defer rec.Finish(t)
	tb := Tbl()
	rec.Rapid(t, func(rt *rapid.T) {
		var pool []string
		nBase := rapid.IntRange(3, 5).Draw(rt, "nBase")
		for i := 0; i < nBase; i++ {
			var s string
			if dups := tb.DupIDs(); len(dups) > 0 && rapid.IntRange(0, 7).Draw(rt, fmt.Sprintf("b%dDup", i)) == 0 {
				// ids listed at two table positions and their families: a recorded finding as far as their
				// static behaviour goes, but their answers must still not depend on history
				rel := tb.Relatives(rapid.SampledFrom(dups).Draw(rt, fmt.Sprintf("b%dDupID", i)))
				s = rapid.SampledFrom(rel).Draw(rt, fmt.Sprintf("b%dDupRel", i))
				for _, r := range rel {
					pool = append(pool, r, r+"+")
				}
			} else if rapid.IntRange(0, 3).Draw(rt, fmt.Sprintf("b%dKind", i)) == 0 {
				// deprecated / folding ids and the open spellings are where lookahead-dependent lookups live
				s = rapid.SampledFrom(append(append([]string{}, oddSeeds...), "GPL-2.0", "LGPL-3.0", "AGPL-1.0", "GFDL-1.3", "eCos-2.0", "GPL-2.0-with-GCC-exception", "Nunit")).Draw(rt, fmt.Sprintf("b%dOdd", i))
			} else {
				s = drawEntry(rt, fmt.Sprintf("b%d", i), rapid.Bool().Draw(rt, fmt.Sprintf("b%dSingle", i))).S.S()
			}
			pool = append(pool, s)
			pool = append(pool, neighbours(rt, s, fmt.Sprintf("b%d", i))...)
		}
		var w Workload
		for _, s := range pool {
			w.Calls = append(w.Calls,
				PCall{Fn: "validate", List: []StrCase{mkStr(s)}},
				PCall{Fn: "extract", Expr: mkStr(s)},
				PCall{Fn: "satisfies", Expr: mkStr(s), List: []StrCase{mkStr("MIT"), mkStr(pool[0])}},
				PCall{Fn: "satisfies", Expr: mkStr(pool[0]), List: []StrCase{mkStr(s)}})
		}
		// every pair of short strings against each other (single-term matching must not depend on history)
		var short []string
		seenS := map[string]bool{}
		for _, s := range pool {
			if len(s) <= 40 && !strings.Contains(s, " AND ") && !strings.Contains(s, " OR ") && !seenS[s] {
				seenS[s] = true
				short = append(short, s)
			}
		}
		if len(short) > 14 {
			short = rapid.Permutation(short).Draw(rt, "shortSel")[:14]
		}
		for _, a := range short {
			for _, b := range short {
				w.Calls = append(w.Calls, PCall{Fn: "satisfies", Expr: mkStr(a), List: []StrCase{mkStr(b)}})
			}
		}
		for i, n := 0, rapid.IntRange(2, 6).Draw(rt, "nLists"); i < n; i++ {
			l := rapid.SliceOfN(rapid.SampledFrom(pool), 2, 5).Draw(rt, fmt.Sprintf("l%d", i))
			var sc []StrCase
			for _, e := range l {
				sc = append(sc, mkStr(e))
			}
			dup := append(append([]StrCase{}, sc...), sc[0])
			w.Calls = append(w.Calls, PCall{Fn: "validate", List: sc}, PCall{Fn: "satisfies", Expr: mkStr(pool[0]), List: sc},
				PCall{Fn: "satisfies", Expr: mkStr(pool[0]), List: dup}, PCall{Fn: "validate", List: dup})
		}
		n := len(w.Calls)
		id, rev := make([]int, n), make([]int, n)
		for i := range id {
			id[i], rev[i] = i, n-1-i
		}
		w.Orders = [][]int{id, rev, rapid.Permutation(id).Draw(rt, "shuffle")}
		out := checkC13Orders(w)
		rec.Case(true, fmt.Sprint(pool), map[string]any{"strings": pool, "calls": n, "orders": 3}, "workload")
		rec.Tally("child-processes", 3)
		rec.Tally("calls", int64(3*n))
		if !out.OK {
			rec.Fail(rt, "c13-orders", out.Key, out.Msg, w)
		}
	})
}

// QuietCase: strings pushed through every entry point while file descriptors 1 and 2 are captured.
type QuietCase struct {
	Strings []StrCase `json:"strings"`
}

func init() { registerReplay("c13-quiet", checkC13Quiet) }

func checkC13Quiet(c QuietCase) Outcome {
	restore, err := captureFDs()
	if err != nil {
		return fail("C13/harness", "cannot capture stdout/stderr: %v", err)
	}
	var list []string
	for _, sc := range c.Strings {
		s := sc.S()
		list = append(list, s)
		Validate([]string{s})
		Extract(s)
		Satisfies(s, []string{"MIT", "GPL-2.0+"})
		Satisfies("MIT OR GPL-3.0-only", []string{s})
	}
	Validate(list)
	Satisfies("MIT", list)
	Validate(nil)
	Satisfies("MIT", nil)
	out := restore()
	if out != "" {
		return fail("C13/output/"+firstN(strings.TrimSpace(out), 60), "the library wrote %d bytes to standard output / standard error while handling %q: %q", len(out), list, firstN(out, 400))
	}
	return pass()
}

// TestC13_Quiet: nothing is ever written to file descriptors 1 and 2, whatever the input — the
// broad input mix of C03/C04 (token sequences incl. open spellings, edits, raw bytes, hostile
// constants, trees, a few long inputs) under the fd-level capture.
func TestC13_Quiet(t *testing.T) {
	rec := NewRecorder("C13", "quiet", "batches of 8 strings from the C03/C04 input mix (token sequences incl. open spellings, single edits of valid expressions, raw bytes, hostile constants, valid trees, unknown ids up to 90 bytes, occasional inputs of a few KB) through all three entry points in every argument position, plus nil/empty lists, with file descriptors 1 and 2 redirected to a file; oracle: zero bytes arrive; non-trivial = the batch contains an invalid string; distinct by batch")
	defer rec.Finish(t)
	tb := Tbl()
	rec.Rapid(t, func(rt *rapid.T) {
		var c QuietCase
		invalid := false
		for i := 0; i < 8; i++ {
			label := fmt.Sprintf("q%d", i)
			var s string
			switch rapid.IntRange(0, 9).Draw(rt, label+"Kind") {
			case 0:
				s = rapid.SampledFrom(hostile).Draw(rt, label+"H")
			case 1:
				s = tb.DrawUnknown(rt, label) + rapid.SampledFrom([]string{"", "+", "-only", "-or-later", "-only-only", " WITH x", ":"}).Draw(rt, label+"Suf")
			case 2:
				fam := rapid.SampledFrom([]string{"and-chain", "nesting", "open-parens", "plus-run", "junk-bytes", "long-id", "spaces"}).Draw(rt, label+"Fam")
				s, _ = buildSize(SizeCase{Family: fam, N: rapid.IntRange(50, 400).Draw(rt, label+"N")})
			default:
				s = drawEntry(rt, label, false).S.S()
			}
			if v, _ := Valid1(s); !v {
				invalid = true
			}
			c.Strings = append(c.Strings, mkStr(s))
		}
		out := checkC13Quiet(c)
		var texts []string
		for _, sc := range c.Strings {
			texts = append(texts, firstN(sc.Text, 60))
		}
		rec.Case(invalid, fmt.Sprint(texts), texts, "batch")
		if !out.OK {
			rec.Fail(rt, "c13-quiet", out.Key, out.Msg, c)
		}
	})
}
