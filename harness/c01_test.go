package harness

import (
	"fmt"
	"strings"
	"testing"

	"pgregory.net/rapid"
)

// TreeCase is a generated expression tree with its rendering and an allowed list.
type TreeCase struct {
	Pool    []Term   `json:"pool"`
	Tree    *Node    `json:"tree"`
	Expr    string   `json:"expr"`
	Allowed []string `json:"allowed"`
	// AllowedTerms: the allowed entries as generated terms (same order as Allowed), when known
	AllowedTerms []Term `json:"allowed_terms,omitempty"`
	// RefOnly: decide by the reference model alone (wide cases, where leaves x entries calls would
	// dominate the run without adding information: the ids are distinct and unrelated)
	RefOnly bool `json:"ref_only,omitempty"`
}

func (c TreeCase) terms() []string { return Texts(c.Pool) }

func init() { registerReplay("c01-boolean", checkC01) }

// checkC01: Satisfies(expr, A) == eval(tree, leaf -> Satisfies(leaf, A)).
func checkC01(c TreeCase) Outcome {
	truth := map[int]bool{}
	leaves := map[int]bool{}
	c.Tree.LeafSet(leaves)
	// the assignment the property defines: a term is true iff at least one allowed entry matches
	// that single term on its own
	single := map[string]bool{}
	for i := range leaves {
		if c.RefOnly {
			break
		}
		t := false
		for _, a := range c.Allowed {
			k := c.Pool[i].Text + "\x00" + a
			m, seen := single[k]
			if !seen {
				r := Satisfies(c.Pool[i].Text, []string{a})
				if r.Panic != "" {
					return fail("C01/panic/"+c.Pool[i].Text, "Satisfies(%q, {%q}) panicked: %s", c.Pool[i].Text, a, r.Panic)
				}
				if r.IsErr {
					return fail("C01/leaf-error/"+c.Pool[i].Text, "valid single term %q with valid entry %q returned %s", c.Pool[i].Text, a, r)
				}
				m = r.OK
				single[k] = m
			}
			t = t || m
		}
		truth[i] = t
		// a single term against the whole list is the one-leaf instance of the property
		r := Satisfies(c.Pool[i].Text, c.Allowed)
		if r.Panic != "" || r.IsErr || r.OK != t {
			return fail(fmt.Sprintf("C01/verdict/%s | %s", c.Pool[i].Text, strings.Join(c.Allowed, ",")),
				"Satisfies(%q, %q) = %s, but matching the term against each entry on its own gives %v", c.Pool[i].Text, c.Allowed, r, t)
		}
	}
	want := c.Tree.Eval(func(l int) bool { return truth[l] })
	got := Satisfies(c.Expr, c.Allowed)
	if c.RefOnly {
		if got.Panic != "" || got.IsErr {
			return fail("C01/error/"+shortKey(c.Expr), "valid input but Satisfies(%s, %q) = %s", shortKey(c.Expr), c.Allowed, got)
		}
		want = got.OK // the reference model below is the oracle
	}
	// second, fully independent oracle (when the case carries the allowed entries as terms and no id
	// with an ambiguous table position is involved): reference matcher + Boolean evaluation
	if len(c.AllowedTerms) == len(c.Allowed) && !got.IsErr && got.Panic == "" {
		tb := Tbl()
		ambiguous := false
		for _, t := range append(append([]Term{}, c.Pool...), c.AllowedTerms...) {
			ambiguous = ambiguous || (t.Kind == "lic" && tb.MultiPosition(t.ID))
		}
		if !ambiguous {
			ref := c.Tree.Eval(func(l int) bool {
				for _, a := range c.AllowedTerms {
					if tb.Match(c.Pool[l], a) {
						return true
					}
				}
				return false
			})
			if got.OK != ref {
				return fail(fmt.Sprintf("C01/reference/%s | %s", c.Expr, strings.Join(c.Allowed, ",")),
					"Satisfies(%q, %q) = %v, the reference model (documented matching rules + Boolean evaluation of the generated tree) gives %v", c.Expr, c.Allowed, got.OK, ref)
			}
		}
	}
	key := fmt.Sprintf("C01/verdict/%s | %s", c.Expr, strings.Join(c.Allowed, ","))
	if got.Panic != "" {
		return fail("C01/panic/"+c.Expr, "Satisfies(%q, %q) panicked: %s", c.Expr, c.Allowed, got.Panic)
	}
	if got.IsErr || got.OK != want {
		var tv []string
		for i := range c.Pool {
			if leaves[i] {
				tv = append(tv, fmt.Sprintf("%s=%v", c.Pool[i].Text, truth[i]))
			}
		}
		return fail(key, "Satisfies(%q, %q) = %s, Boolean value of the formula is %v (terms: %s)", c.Expr, c.Allowed, got, want, strings.Join(tv, ", "))
	}
	return pass()
}

func drawTreeCase(rt *rapid.T, maxAllowed int) TreeCase {
	tb := Tbl()
	excPool := tb.DrawExcPool(rt)
	pool := tb.DrawPool(rt, excPool)
	var tree *Node
	for try := 0; ; try++ {
		tree = DrawTree(rt, len(pool), 6, 24)
		if tree.Alternatives() <= 4096 {
			break
		}
		if try > 20 {
			tree = &Node{Leaf: 0}
			break
		}
	}
	sp := DrawSpacer(rt)
	c := TreeCase{Pool: pool, Tree: tree}
	c.Expr = tree.Render(c.terms(), sp)
	c.AllowedTerms = tb.DrawAllowed(rt, pool, excPool, maxAllowed)
	if maxAllowed > 1 && rapid.IntRange(0, 9).Draw(rt, "longList") == 0 {
		c.AllowedTerms = tb.PadAllowed(rt, c.AllowedTerms)
	}
	c.Allowed = Texts(c.AllowedTerms)
	return c
}

func TestC01_Tree(t *testing.T) {
	rec := NewRecorder("C01", "tree",
		"rapid-generated expression trees (depth<=6, <=24 leaves, pool of 1-7 terms of every kind, generated parentheses/spacing) x generated allowed lists (1-8 entries related to the pool); oracle: independent Boolean evaluation over per-term Satisfies verdicts; non-trivial = >=3 leaves, both operators, truth assignment neither all-true nor all-false; distinct by (expr, allowed)")
	defer rec.Finish(t)
	rec.Rapid(t, func(rt *rapid.T) {
		c := drawTreeCase(rt, 8)
		out := checkC01(c)
		// classification
		leaves := map[int]bool{}
		c.Tree.LeafSet(leaves)
		nTrue := 0
		if out.OK {
			for i := range leaves {
				if Satisfies(c.Pool[i].Text, c.Allowed).OK {
					nTrue++
				}
			}
		}
		if len(c.Allowed) != len(setOf(c.Allowed)) {
			rec.Class("list-has-duplicates")
		}
		if len(c.Allowed) >= 16 {
			rec.Class("list-16-or-more-entries")
		}
		mixed := nTrue > 0 && nTrue < len(leaves)
		nontrivial := c.Tree.Leaves() >= 3 && hasBothOps(c.Tree) && mixed
		classes := treeClasses(c.Tree, c.Pool)
		if out.OK {
			if Satisfies(c.Expr, c.Allowed).OK {
				classes = append(classes, "verdict-true")
			} else {
				classes = append(classes, "verdict-false")
			}
		}
		if mixed {
			classes = append(classes, "mixed-truth")
		}
		rec.Case(nontrivial, c.Expr+" | "+strings.Join(c.Allowed, ","), map[string]any{"expr": c.Expr, "allowed": c.Allowed}, classes...)
		if !out.OK {
			rec.Fail(rt, "c01-boolean", out.Key, out.Msg, c)
		}
	})
}
