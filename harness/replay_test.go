package harness

import (
	"encoding/json"
	"fmt"
	"os"
	"testing"
)

// TestReplay re-decides one stored case (VERIF_REPLAY=<file>) without rapid.
// Prints "REPLAY-RESULT violation|pass|error ..." for the driver.
func TestReplay(t *testing.T) {
	path := os.Getenv("VERIF_REPLAY")
	if path == "" {
		t.Skip("VERIF_REPLAY not set")
	}
	data, err := os.ReadFile(path)
	if err != nil {
		fmt.Printf("REPLAY-RESULT error %v\n", err)
		t.Fatal(err)
	}
	var rf ReplayFile
	if err := json.Unmarshal(data, &rf); err != nil {
		fmt.Printf("REPLAY-RESULT error %v\n", err)
		t.Fatal(err)
	}
	f, ok := replayers[rf.Check]
	if !ok {
		fmt.Printf("REPLAY-RESULT error unknown check %q\n", rf.Check)
		t.Fatalf("unknown check %q", rf.Check)
	}
	out, err := f(rf.Case)
	if err != nil {
		fmt.Printf("REPLAY-RESULT error %v\n", err)
		t.Fatal(err)
	}
	if out.OK {
		fmt.Printf("REPLAY-RESULT pass property=%s check=%s\n", rf.Property, rf.Check)
		return
	}
	fmt.Printf("REPLAY-RESULT violation property=%s check=%s key=%q\n%s\n", rf.Property, rf.Check, out.Key, out.Msg)
}
