package harness

import (
	"encoding/base64"
	"fmt"
	"strings"
	"testing"

	"pgregory.net/rapid"
)

// StrCase carries one argument string; B64 is used so that invalid UTF-8 survives JSON.
type StrCase struct {
	B64  string `json:"b64"`
	Text string `json:"text"` // informational (lossy for invalid UTF-8)
}

func mkStr(s string) StrCase {
	t := s
	if len(t) > 300 {
		t = t[:300] + fmt.Sprintf("...(%d bytes)", len(s))
	}
	return StrCase{B64: base64.StdEncoding.EncodeToString([]byte(s)), Text: strings.ToValidUTF8(t, "�")}
}

func (c StrCase) S() string {
	if c.B64 == "" {
		return c.Text // hand-written corpus entries give plain text
	}
	b, _ := base64.StdEncoding.DecodeString(c.B64)
	return string(b)
}

func shortKey(s string) string {
	if len(s) <= 160 {
		return fmt.Sprintf("%q", s)
	}
	return fmt.Sprintf("%q...[%d bytes, fnv %x]", s[:120], len(s), hash64(s))
}

func init() {
	registerReplay("c03-string", checkC03String)
	registerReplay("c03-list", checkC03List)
}

// shallowProbe: the exhaustive-edits unit enumerates ~600 strings per expression and leaves the
// repeated-call probes to the other units (set only by TestC03_Edits, which runs in its own process)
var shallowProbe bool

// probePanic passes s to every entry point in every argument position and reports the first panic.
func probePanic(s string) (where, msg string) {
	if r := Validate([]string{s}); r.Panic != "" {
		return "ValidateLicenses", r.Panic
	}
	if r := Extract(s); r.Panic != "" {
		return "ExtractLicenses", r.Panic
	}
	if r := Satisfies(s, []string{"MIT"}); r.Panic != "" {
		return "Satisfies(expression)", r.Panic
	}
	if r := Satisfies("MIT", []string{s}); r.Panic != "" {
		return "Satisfies(allowed entry)", r.Panic
	}
	if len(s) <= 256 && !shallowProbe {
		// once more, now that the library has seen the string (and in a two-entry list)
		if r := Satisfies("MIT", []string{"MIT", s}); r.Panic != "" {
			return "Satisfies(allowed entry, first time in a two-entry list)", r.Panic
		}
		if r := Satisfies("MIT", []string{"MIT", s}); r.Panic != "" {
			return "Satisfies(allowed entry, repeated call)", r.Panic
		}
		if r := Extract(s); r.Panic != "" {
			return "ExtractLicenses (repeated call)", r.Panic
		}
		if r := Validate([]string{s, s}); r.Panic != "" {
			return "ValidateLicenses (repeated entry)", r.Panic
		}
	}
	return "", ""
}

func checkC03String(c StrCase) Outcome {
	s := c.S()
	if where, msg := probePanic(s); where != "" {
		return fail("C03/panic/"+shortKey(s), "%s panicked on %s: %s", where, shortKey(s), msg)
	}
	return pass()
}

type ListCase struct {
	Nil  bool      `json:"nil"`
	List []StrCase `json:"list"`
	Expr StrCase   `json:"expr"`
}

func (c ListCase) list() []string {
	if c.Nil {
		return nil
	}
	out := make([]string, len(c.List))
	for i, e := range c.List {
		out[i] = e.S()
	}
	return out
}

func checkC03List(c ListCase) Outcome {
	l := c.list()
	key := "C03/panic/list/" + shortKey(fmt.Sprintf("%q nil=%v expr=%q", l, c.Nil, c.Expr.S()))
	if r := Validate(l); r.Panic != "" {
		return fail(key, "ValidateLicenses(%q) panicked: %s", l, r.Panic)
	}
	if r := Satisfies(c.Expr.S(), l); r.Panic != "" {
		return fail(key, "Satisfies(%q, %q) panicked: %s", c.Expr.S(), l, r.Panic)
	}
	return pass()
}

const c03Rule = "every generated string goes to ValidateLicenses, ExtractLicenses and Satisfies (as expression and as allowed entry), each under recover(); oracle: no panic. non-trivial = the string is rejected by ValidateLicenses or has > 64 tokens; distinct by content"

func c03Record(rec *Recorder, s string, classes ...string) {
	valid, _ := Valid1(s)
	cl := append([]string{}, classes...)
	if valid {
		cl = append(cl, "valid")
	} else {
		cl = append(cl, "invalid")
	}
	rec.Case(!valid || len(s) > 400, s, mkStr(s).Text, cl...)
}

// TestC03_Tokens: random token sequences over the full alphabet, incl. the open spellings.
func TestC03_Tokens(t *testing.T) {
	rec := NewRecorder("C03", "tokens", "token sequences (1-12 tokens over the §3.4 alphabet incl. unasserted spellings, loose/tight spacing); "+c03Rule)
	defer rec.Finish(t)
	tb := Tbl()
	rec.Rapid(t, func(rt *rapid.T) {
		toks := tb.DrawToks(rt, 1, 12, true)
		s := RenderToks(toks, DrawSpacer(rt))
		c := mkStr(s)
		out := checkC03String(c)
		c03Record(rec, s)
		if !out.OK {
			rec.Fail(rt, "c03-string", out.Key, out.Msg, c)
		}
	})
}

// alphabetReps: one representative per token class, for exhaustive single-token insertions.
func alphabetReps() []Tok {
	return []Tok{{kLIC, "MIT"}, {kLIC, "GPL-2.0"}, {kLIC, "Apache-2.0-or-later"}, {kLIC, "GPL-2.0-or-later"}, {kLIC, "mit-only"},
		{kEXC, "Bison-exception-2.2"}, {kUNK, "FOO"}, {kLOWOP, "and"}, {kLREF, "LicenseRef-a"}, {kDREF, "DocumentRef-d"},
		{kCOLON, ":"}, {kLP, "("}, {kRP, ")"}, {kAND, "AND"}, {kOR, "OR"}, {kWITH, "WITH"}, {kPLUS, "+"}, {kSPLUS, "+"}}
}

// TestC03_Edits: for each generated valid expression, every byte prefix, every single-token
// deletion and every single-token insertion (each alphabet class at each position).
func TestC03_Edits(t *testing.T) {
	rec := NewRecorder("C03", "edits", "for each rapid-generated valid expression (<=10 leaves): every byte prefix, every single-token deletion, every insertion of one token of each of 18 alphabet classes at every position (enumerated exhaustively per expression); "+c03Rule)
	defer rec.Finish(t)
	tb := Tbl()
	reps := alphabetReps()
	shallowProbe = true
	defer func() { shallowProbe = false }()
	rec.Rapid(t, func(rt *rapid.T) {
		excPool := tb.DrawExcPool(rt)
		pool := tb.DrawPool(rt, excPool)
		tree := DrawTree(rt, len(pool), 4, 10)
		toks := tree.Toks(pool)
		sp := DrawSpacer(rt)
		full := RenderToks(toks, sp)
		try := func(s, class string) {
			c := mkStr(s)
			out := checkC03String(c)
			c03Record(rec, s, class)
			if !out.OK {
				rec.Fail(rt, "c03-string", out.Key, out.Msg, c)
			}
		}
		if v, _ := Valid1(full); v {
			rec.Class("base-valid")
		} else {
			rec.Class("base-invalid")
		}
		for i := 0; i <= len(full); i++ {
			try(full[:i], "prefix")
		}
		for i := range toks {
			del := append(append([]Tok{}, toks[:i]...), toks[i+1:]...)
			try(RenderToks(del, &Spacer{tape: sp.tape}), "deletion")
		}
		for i := 0; i <= len(toks); i++ {
			for _, r := range reps {
				ins := append(append(append([]Tok{}, toks[:i]...), r), toks[i:]...)
				try(RenderToks(ins, &Spacer{tape: sp.tape}), "insertion")
			}
		}
	})
}

var hostile = []string{"MIT WITH DocumentRef-a:", "MIT WITH DocumentRef-a", "MIT WITH LicenseRef-a", "MIT ISC WITH", "MIT GPL-2.0+ WITH", "MIT and", "MIT or", "GPL-2.0 with", "and", "MIT Classpath-exception-2.0", "", " ", "   ", "(", ")", "()", "( )", "((", "))", "MIT WITH", "MIT WITH ", "DocumentRef-a", "DocumentRef-a:", "DocumentRef-a: ",
	"DocumentRef-", "LicenseRef-", "MIT AND (", "MIT AND", "MIT OR", "AND", "OR", "WITH", "+", "++", " +", ":", "-or-later", "-only", "MIT+", "MIT++",
	"MIT +", "MIT-or-later", "(MIT-or-later)", "MIT-or-later)", "MIT-or-later+", "GPL-2.0++", "\x00", "MIT\x00", "\xff\xfe", "MIT\tAND\tISC",
	"MIT\nAND ISC", "é", "MIT AND é", "LicenseRef-é", "ＭＩＴ", "MIT AND ISC OR", "(MIT", "MIT)", "(MIT))", "((MIT)", "MIT ISC", "MIT (ISC)",
	"LicenseRef-a+", "LicenseRef-a WITH Bison-exception-2.2", "DocumentRef-a:MIT", "DocumentRef-a:DocumentRef-b:LicenseRef-c", "MIT WITH MIT",
	"Bison-exception-2.2", "MIT WITH Bison-exception-2.2 WITH Bison-exception-2.2", "MIT AND AND ISC", "MIT OR OR ISC", "( AND )", "(OR)", "WITH Bison-exception-2.2"}

// TestC03_Raw: raw byte strings and byte-level splices of valid expressions.
func TestC03_Raw(t *testing.T) {
	rec := NewRecorder("C03", "raw", "raw byte strings (arbitrary bytes incl. invalid UTF-8, NUL, tabs, newlines, non-ASCII), hostile constants, and valid expressions with a generated byte-level splice (insert/delete/replace at a byte position); "+c03Rule)
	defer rec.Finish(t)
	tb := Tbl()
	for _, s := range hostile {
		c := mkStr(s)
		out := checkC03String(c)
		c03Record(rec, s, "hostile-constant")
		if !out.OK {
			rec.Violate("c03-string", out.Key, out.Msg, c)
		}
	}
	junk := rapid.OneOf(
		rapid.SliceOfN(rapid.Byte(), 0, 24),
		rapid.SliceOfN(rapid.SampledFrom([]byte(" ()+:-.\t\n\x00\xffAaZz09WITHANDOR")), 0, 24),
	)
	rec.Rapid(t, func(rt *rapid.T) {
		var s, class string
		switch rapid.IntRange(0, 2).Draw(rt, "mode") {
		case 0:
			s, class = string(junk.Draw(rt, "raw")), "raw"
		default:
			excPool := tb.DrawExcPool(rt)
			pool := tb.DrawPool(rt, excPool)
			tree := DrawTree(rt, len(pool), 4, 10)
			full := tree.Render(Texts(pool), DrawSpacer(rt))
			pos := rapid.IntRange(0, len(full)).Draw(rt, "pos")
			ins := string(junk.Draw(rt, "splice"))
			cut := 0
			if pos < len(full) {
				cut = rapid.IntRange(0, min(len(full)-pos, 6)).Draw(rt, "cut")
			}
			s, class = full[:pos]+ins+full[pos+cut:], "splice"
		}
		c := mkStr(s)
		out := checkC03String(c)
		c03Record(rec, s, class)
		if !out.OK {
			rec.Fail(rt, "c03-string", out.Key, out.Msg, c)
		}
	})
}

// TestC03_Lists: nil / empty / blank-entry slices for the slice-typed arguments.
func TestC03_Lists(t *testing.T) {
	rec := NewRecorder("C03", "lists", "slice arguments: nil, empty, blank and hostile entries mixed with valid ones (generated lists of 0-6 entries) for ValidateLicenses and Satisfies' allowed list; oracle: no panic; non-trivial = list is nil/empty or has an invalid entry; distinct by content")
	defer rec.Finish(t)
	tb := Tbl()
	fixed := []ListCase{{Nil: true, Expr: mkStr("MIT")}, {Expr: mkStr("MIT")}, {List: []StrCase{mkStr("")}, Expr: mkStr("MIT")},
		{List: []StrCase{mkStr(" ")}, Expr: mkStr("MIT")}, {Nil: true, Expr: mkStr("")}, {List: []StrCase{mkStr("MIT"), mkStr("")}, Expr: mkStr("(")}}
	for _, c := range fixed {
		out := checkC03List(c)
		rec.Case(true, fmt.Sprintf("%q/%v/%q", c.list(), c.Nil, c.Expr.S()), map[string]any{"list": c.list(), "nil": c.Nil, "expr": c.Expr.S()}, "fixed")
		if !out.OK {
			rec.Violate("c03-list", out.Key, out.Msg, c)
		}
	}
	rec.Rapid(t, func(rt *rapid.T) {
		n := rapid.IntRange(0, 6).Draw(rt, "n")
		c := ListCase{Nil: n == 0 && rapid.Bool().Draw(rt, "nil")}
		nontrivial := n == 0
		for i := 0; i < n; i++ {
			var s string
			switch rapid.IntRange(0, 3).Draw(rt, fmt.Sprintf("e%dKind", i)) {
			case 0:
				s = rapid.SampledFrom(hostile).Draw(rt, fmt.Sprintf("e%d", i))
			case 1:
				s = RenderToks(tb.DrawToks(rt, 1, 6, true), DrawSpacer(rt))
			default:
				s = tb.DrawLicSpelling(rt, fmt.Sprintf("e%d", i))
			}
			if v, _ := Valid1(s); !v {
				nontrivial = true
			}
			c.List = append(c.List, mkStr(s))
		}
		if rapid.Bool().Draw(rt, "exprHostile") {
			c.Expr = mkStr(rapid.SampledFrom(hostile).Draw(rt, "expr"))
		} else {
			c.Expr = mkStr("MIT OR " + tb.DrawLicSpelling(rt, "expr"))
		}
		out := checkC03List(c)
		rec.Case(nontrivial, fmt.Sprintf("%q/%v/%q", c.list(), c.Nil, c.Expr.S()), map[string]any{"list": c.list(), "nil": c.Nil, "expr": c.Expr.S()})
		if !out.OK {
			rec.Fail(rt, "c03-list", out.Key, out.Msg, c)
		}
	})
}
