package harness

import (
	"fmt"
	"runtime/debug"

	"github.com/github/go-spdx/v2/spdxexp"
)

// Calls into the library, each under recover(): a panic is a C03 violation wherever it shows up,
// so every check funnels its calls through these wrappers and learns about it.

type SatRes struct {
	OK    bool   `json:"ok"`
	Err   string `json:"err,omitempty"`
	IsErr bool   `json:"is_err,omitempty"`
	Panic string `json:"panic,omitempty"`
}

func (r SatRes) String() string {
	if r.Panic != "" {
		return "panic: " + r.Panic
	}
	if r.IsErr {
		return fmt.Sprintf("(%v, error %q)", r.OK, r.Err)
	}
	return fmt.Sprintf("(%v, nil)", r.OK)
}

func firstLines(s string, n int) string {
	count := 0
	for i := 0; i < len(s); i++ {
		if s[i] == '\n' {
			count++
			if count >= n {
				return s[:i]
			}
		}
	}
	return s
}

func Satisfies(expr string, allowed []string) (res SatRes) {
	defer func() {
		if p := recover(); p != nil {
			res = SatRes{Panic: fmt.Sprintf("%v\n%s", p, firstLines(string(debug.Stack()), 24))}
		}
	}()
	ok, err := spdxexp.Satisfies(expr, allowed)
	res.OK = ok
	if err != nil {
		res.IsErr = true
		res.Err = err.Error()
	}
	return res
}

type ValRes struct {
	Valid   bool     `json:"valid"`
	Invalid []string `json:"invalid"`
	Panic   string   `json:"panic,omitempty"`
}

func Validate(list []string) (res ValRes) {
	defer func() {
		if p := recover(); p != nil {
			res = ValRes{Panic: fmt.Sprintf("%v\n%s", p, firstLines(string(debug.Stack()), 24))}
		}
	}()
	v, inv := spdxexp.ValidateLicenses(list)
	return ValRes{Valid: v, Invalid: inv}
}

// Valid1 is the validity verdict of one string; panicked is reported separately.
func Valid1(s string) (valid bool, panicked string) {
	r := Validate([]string{s})
	if r.Panic != "" {
		return false, r.Panic
	}
	return r.Valid && len(r.Invalid) == 0, ""
}

type ExtRes struct {
	Licenses []string `json:"licenses"`
	Nil      bool     `json:"nil,omitempty"` // the returned slice was nil
	Err      string   `json:"err,omitempty"`
	IsErr    bool     `json:"is_err,omitempty"`
	Panic    string   `json:"panic,omitempty"`
}

func Extract(expr string) (res ExtRes) {
	defer func() {
		if p := recover(); p != nil {
			res = ExtRes{Panic: fmt.Sprintf("%v\n%s", p, firstLines(string(debug.Stack()), 24))}
		}
	}()
	l, err := spdxexp.ExtractLicenses(expr)
	res.Licenses = l
	res.Nil = l == nil
	if err != nil {
		res.IsErr = true
		res.Err = err.Error()
	}
	return res
}
