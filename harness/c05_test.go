package harness

import (
	"fmt"
	"runtime"
	"sort"
	"strings"
	"sync"
	"testing"

	"pgregory.net/rapid"
)

// TokCase: a token sequence and the text it was rendered to.
type TokCase struct {
	Toks []Tok  `json:"toks"`
	Text string `json:"text"`
}

func init() {
	registerReplay("c05-grammar", checkC05)
	registerReplay("c05-double-plus", checkC05DoublePlus)
}

// checkC05: ValidateLicenses accepts the rendering iff the reference recogniser derives the tokens.
func checkC05(c TokCase) Outcome {
	want, _, defined := Recognise(c.Toks)
	if !defined {
		return pass()
	}
	got, panicked := Valid1(c.Text)
	if panicked != "" {
		return fail("C05/panic/"+shortKey(c.Text), "ValidateLicenses({%q}) panicked: %s", c.Text, panicked)
	}
	if got != want {
		verb := "reject"
		if got {
			verb = "accept"
		}
		return fail("C05/"+verb+"/"+c.Text, "ValidateLicenses({%q}) says valid=%v, the documented grammar says %v (tokens: %s)", c.Text, got, want, kinds(c.Toks))
	}
	return pass()
}

const c05Rule = "oracle: ValidateLicenses({render(tokens)}) accepts iff the reference recogniser (DESIGN.md 3.4) derives the generated token sequence; non-trivial = >= 3 tokens; distinct by rendered text"

func c05Classes(toks []Tok, accepted bool) []string {
	cl := []string{"rejected"}
	if accepted {
		cl[0] = "accepted"
	}
	tb := Tbl()
	for i, t := range toks {
		if t.K == kLIC && strings.HasSuffix(t.T, "-or-later") {
			if _, listed := tb.ActiveID(t.T); !listed {
				next := "end"
				if i+1 < len(toks) {
					next = toks[i+1].K
				}
				switch next {
				case kRP, kPLUS, kWITH, "end":
					cl = append(cl, "synth-or-later-then-"+next)
				}
			}
		}
		if t.K == kPLUS && i+1 < len(toks) && toks[i+1].K == kPLUS {
			cl = append(cl, "plus-plus")
		}
	}
	return cl
}

func c05Run(rec *Recorder, rt *rapid.T, toks []Tok, sp *Spacer, class string) {
	tb := Tbl()
	if tb.HasDoublePlusFold(toks) {
		rec.Exclude("known-finding-class C05/double-plus (X++ with X folding into listed X-or-later)")
		return
	}
	c := TokCase{Toks: toks, Text: RenderToks(toks, sp)}
	out := checkC05(c)
	acc, _, _ := Recognise(toks)
	rec.Case(len(toks) >= 3, c.Text, map[string]any{"text": c.Text, "kinds": kinds(toks), "grammatical": acc}, append(c05Classes(toks, acc), class)...)
	if !out.OK {
		if rt != nil {
			rec.Fail(rt, "c05-grammar", out.Key, out.Msg, c)
		} else {
			rec.Violate("c05-grammar", out.Key, out.Msg, c)
		}
	}
}

// TestC05_Random: weighted random token sequences.
func TestC05_Random(t *testing.T) {
	rec := NewRecorder("C05", "random", "weighted random token sequences of 1-12 tokens over the asserted alphabet, loose and tight spacing; "+c05Rule)
	defer rec.Finish(t)
	tb := Tbl()
	rec.Rapid(t, func(rt *rapid.T) {
		toks := tb.DrawToks(rt, 1, 12, false)
		c05Run(rec, rt, toks, DrawSpacer(rt), "random")
	})
}

// TestC05_NearValid: grammatical sequences from generated trees with 0-2 token-level edits.
func TestC05_NearValid(t *testing.T) {
	rec := NewRecorder("C05", "near-valid", "token sequences of rapid-generated valid expression trees, subjected to 0-2 token edits (delete, insert, swap adjacent, duplicate, replace); "+c05Rule)
	defer rec.Finish(t)
	tb := Tbl()
	rec.Rapid(t, func(rt *rapid.T) {
		excPool := tb.DrawExcPool(rt)
		pool := tb.DrawPool(rt, excPool)
		tree := DrawTree(rt, len(pool), 4, 8)
		toks := tree.Toks(pool)
		nEdits := rapid.IntRange(0, 2).Draw(rt, "nEdits")
		for e := 0; e < nEdits && len(toks) > 0; e++ {
			pos := rapid.IntRange(0, len(toks)-1).Draw(rt, fmt.Sprintf("pos%d", e))
			switch rapid.IntRange(0, 4).Draw(rt, fmt.Sprintf("edit%d", e)) {
			case 0:
				toks = append(append([]Tok{}, toks[:pos]...), toks[pos+1:]...)
			case 1:
				toks = append(append(append([]Tok{}, toks[:pos]...), tb.DrawTok(rt, fmt.Sprintf("ins%d", e), false)), toks[pos:]...)
			case 2:
				if pos+1 < len(toks) {
					toks = append([]Tok{}, toks...)
					toks[pos], toks[pos+1] = toks[pos+1], toks[pos]
				}
			case 3:
				toks = append(append(append([]Tok{}, toks[:pos]...), toks[pos]), toks[pos:]...)
			case 4:
				toks = append([]Tok{}, toks...)
				toks[pos] = tb.DrawTok(rt, fmt.Sprintf("rep%d", e), false)
			}
		}
		if len(toks) == 0 {
			return
		}
		c05Run(rec, rt, toks, DrawSpacer(rt), fmt.Sprintf("edits-%d", nEdits))
	})
}

// TestC05_Exhaustive: all sequences up to length 4 (thorough: 5) over one representative per class,
// each in tight and in loose spacing.
func TestC05_Exhaustive(t *testing.T) {
	cfg := Cfg()
	maxLen := cfg.Pick(4, 5)
	if maxLen > 5 {
		maxLen = 5
	}
	rec := NewRecorder("C05", "exhaustive", fmt.Sprintf("ALL token sequences of length 1..%d over one representative per token class (18 classes), each rendered tight and loose; ", maxLen)+c05Rule)
	rec.Exhaustive = true
	defer rec.Finish(t)
	reps := alphabetReps()
	nw := runtime.GOMAXPROCS(0)
	var wg sync.WaitGroup
	for w := 0; w < nw; w++ {
		wg.Add(1)
		go func(w int) {
			defer wg.Done()
			for l := 1; l <= maxLen; l++ {
				total := 1
				for i := 0; i < l; i++ {
					total *= len(reps)
				}
				for idx := w; idx < total; idx += nw {
					toks := make([]Tok, l)
					x := idx
					for i := 0; i < l; i++ {
						toks[i] = reps[x%len(reps)]
						x /= len(reps)
					}
					c05Run(rec, nil, toks, &Spacer{tape: []int{0}}, "tight")
					c05Run(rec, nil, toks, &Spacer{tape: []int{4, 1, 5, 2}}, "loose")
				}
			}
		}(w)
	}
	wg.Wait()
}

// DoublePlusCase: "X++" for one id X.
type DoublePlusCase struct {
	X string `json:"x"`
}

// checkC05DoublePlus: X++ must be rejected, alone and inside a compound expression.
func checkC05DoublePlus(c DoublePlusCase) Outcome {
	for _, s := range []string{c.X + "++", "(" + c.X + "++ AND MIT) OR ISC"} {
		got, panicked := Valid1(s)
		if panicked != "" {
			return fail("C05/panic/"+shortKey(s), "ValidateLicenses({%q}) panicked: %s", s, panicked)
		}
		if got {
			return fail("C05/double-plus/"+c.X, "ValidateLicenses({%q}) accepts a doubled '+', which the grammar (license-id ['+']) does not derive", s)
		}
	}
	return pass()
}

// TestC05_DoublePlus enumerates the whole input class of the known finding: every listed id and
// every listed id minus its -only / -or-later suffix, in list casing.
func TestC05_DoublePlus(t *testing.T) {
	rec := NewRecorder("C05", "double-plus", "X++ (alone and inside '(X++ AND MIT) OR ISC') for EVERY listed license id X and every listed id minus its -only/-or-later suffix; oracle: rejected; non-trivial = every case; distinct by X")
	rec.Exhaustive = true
	defer rec.Finish(t)
	tb := Tbl()
	set := map[string]bool{}
	for _, id := range append(append([]string{}, tb.Active...), tb.Deprecated...) {
		if !idShaped(id) {
			continue
		}
		set[id] = true
		for _, suf := range []string{"-only", "-or-later"} {
			if strings.HasSuffix(id, suf) && len(id) > len(suf) {
				set[strings.TrimSuffix(id, suf)] = true
			}
		}
	}
	ids := make([]string, 0, len(set))
	for id := range set {
		ids = append(ids, id)
	}
	sort.Strings(ids)
	for _, x := range ids {
		c := DoublePlusCase{X: x}
		out := checkC05DoublePlus(c)
		cl := "no-fold"
		if tb.FoldsPlus(x) {
			cl = "folds-into-listed-or-later"
		}
		rec.Case(true, x, x+"++", cl)
		if !out.OK {
			rec.Violate("c05-double-plus", out.Key, out.Msg, c)
		}
	}
}
