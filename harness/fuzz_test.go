package harness

import (
	"encoding/json"
	"fmt"
	"os"
	"path/filepath"
	"strings"
	"testing"
)

// fuzzDict is the token dictionary of the structured half of FuzzAPI (a data-provider layer: the
// fuzzer's bytes select tokens, so it gets past id validation and reaches the parser's logic).
func fuzzDict() []Tok {
	d := []Tok{
		{kLIC, "MIT"}, {kLIC, "mit"}, {kLIC, "Apache-2.0"}, {kLIC, "GPL-2.0"}, {kLIC, "GPL-2.0-only"}, {kLIC, "GPL-2.0-or-later"}, {kLIC, "gpl-3.0"},
		{kLIC, "Apache-2.0-or-later"}, {kLIC, "Apache-1.1-only"}, {kLIC, "LGPL-2.1"}, {kLIC, "AGPL-1.0"}, {kLIC, "CC-BY-3.0"}, {kLIC, "MPL-1.1"}, {kLIC, "ISC"},
		{kLIC, "MIT-or-later"}, {kLIC, "GPL-3.0-only-or-later"}, {kLIC, "bzip2-1.0.5"},
		{kEXC, "Bison-exception-2.2"}, {kEXC, "classpath-exception-2.0"}, {kEXC, "LLVM-exception"},
		{kUNK, "FOO"}, {kUNK, "GPL"}, {kUNK, "x.y"}, {kLOWOP, "and"}, {kLOWOP, "or"}, {kLOWOP, "with"},
		{kLREF, "LicenseRef-a"}, {kLREF, "LicenseRef-MIT"}, {kLREF, "LicenseRef-AND"}, {kDREF, "DocumentRef-d"}, {kDREF, "DocumentRef-x.1"},
		{kCOLON, ":"}, {kLP, "("}, {kRP, ")"}, {kAND, "AND"}, {kOR, "OR"}, {kWITH, "WITH"}, {kPLUS, "+"}, {kSPLUS, "+"},
		{kLP, "("}, {kRP, ")"}, {kAND, "AND"}, {kOR, "OR"}, {kWITH, "WITH"}, {kPLUS, "+"}, {kCOLON, ":"},
		{kODD, "eCos-2.0-only"}, {kODD, "MIT-OR-LATER"}, {kODD, "ORMIT"}, {kODD, "Bison-exception-2.2-only"}, {kODD, "GFDL-1.1-invariants"},
		{kODD, "LicenseRef-"}, {kODD, "DocumentRef-"}, {kODD, "-or-later"}, {kODD, "\x00"}, {kODD, "é"}, {kODD, "\xff"},
	}
	return d
}

// decodeFuzz turns fuzzer bytes into an input string and, in token mode, its token sequence.
func decodeFuzz(data []byte) (s string, toks []Tok) {
	if len(data) == 0 {
		return "", nil
	}
	mode := data[0]
	if mode&1 == 0 {
		return string(data[1:]), nil
	}
	dict := fuzzDict()
	for _, b := range data[1:] {
		toks = append(toks, dict[int(b)%len(dict)])
		if len(toks) >= 48 {
			break
		}
	}
	sp := &Spacer{tape: []int{0}}
	if mode&2 != 0 {
		sp = &Spacer{tape: []int{int(mode >> 2), 1, 4, 0, 7}}
	}
	return RenderToks(toks, sp), toks
}

func fuzzReport(t *testing.T, prop, check string, out Outcome, c any) {
	raw, _ := json.Marshal(c)
	v := Violation{Check: check, Key: out.Key, Msg: out.Msg, Case: raw}
	if dir := os.Getenv("VERIF_FUZZ_OUT"); dir != "" {
		data, _ := json.Marshal(map[string]any{"property": prop, "violation": v})
		os.WriteFile(filepath.Join(dir, fmt.Sprintf("%s-%x.json", prop, hash64(string(raw)))), data, 0o644)
	}
	t.Fatalf("%s VIOLATION %s: %s", prop, out.Key, out.Msg)
}

// FuzzAPI: coverage-guided fuzzing of all three entry points with the semantic oracles inside the
// target: no panic (C03), one notion of validity (C04) and, for token-decoded inputs, agreement
// with the reference recogniser (C05).
func FuzzAPI(f *testing.F) {
	for _, s := range hostile {
		f.Add(append([]byte{0}, s...))
	}
	for _, s := range []string{"MIT AND (Apache-1.0 OR Apache-2.0)", "DocumentRef-spdx-tool-1.2:LicenseRef-MIT-Style-2", "GPL-2.0 WITH Bison-exception-2.2",
		"(MIT AND Apache-2.0) OR GPL-3.0", "LGPL-2.1-only OR MIT OR BSD-3-Clause", "GPL-2.0-or-later WITH Bison-exception-2.2", "Apache-1.0+"} {
		f.Add(append([]byte{0}, s...))
	}
	f.Add([]byte{1, 0, 34, 2, 35, 3})
	f.Add([]byte{3, 32, 0, 37, 33, 36, 17})
	f.Add([]byte{1, 29, 31, 26, 34, 7, 33})
	tb := Tbl()
	mit := Entry{S: mkStr("MIT"), OpKnown: true, Origin: "fixed"}
	only := os.Getenv("VERIF_FUZZ_PROP") // restrict the oracle to one property (the driver's campaign per property)
	want := func(p string) bool { return only == "" || only == p }
	f.Fuzz(func(t *testing.T, data []byte) {
		s, toks := decodeFuzz(data)
		sc := mkStr(s)
		fuzzSample(data, s, toks)
		if out := checkC03String(sc); !out.OK && want("C03") {
			fuzzReport(t, "C03", "c03-string", out, sc)
		}
		var e Entry
		if toks != nil {
			e = entryFromToks(toks, nil, "fuzz-tokens")
			e.S = sc
		} else {
			e = entryFromRaw(s, "fuzz-raw")
		}
		ac := AgreeCase{Expr: e, List: []Entry{mit, e, e}}
		if out := checkC04(ac); want("C04") && !out.OK && !strings.HasPrefix(out.Key, "C04/panic/") {
			fuzzReport(t, "C04", "c04-agreement", out, ac)
		}
		if want("C05") && toks != nil && !tb.HasDoublePlusFold(toks) {
			tc := TokCase{Toks: toks, Text: s}
			if out := checkC05(tc); !out.OK && !strings.HasPrefix(out.Key, "C05/panic/") {
				fuzzReport(t, "C05", "c05-grammar", out, tc)
			}
		}
	})
}

// fuzzSample leaves a thin, content-addressed sample of the executed inputs behind for the evidence
// (about one in 4096 executions; chosen by hash, so deterministic for a given input).
func fuzzSample(data []byte, s string, toks []Tok) {
	dir := os.Getenv("VERIF_FUZZ_OUT")
	if dir == "" {
		return
	}
	h := hash64(string(data))
	if h%4096 != 0 {
		return
	}
	mode := "raw"
	if toks != nil {
		mode = "tokens"
	}
	v, _ := Valid1(s)
	j, _ := json.Marshal(map[string]any{"mode": mode, "input": mkStr(s).Text, "bytes": len(s), "valid": v})
	os.WriteFile(filepath.Join(dir, fmt.Sprintf("sample-%016x.json", h)), j, 0o644)
}
