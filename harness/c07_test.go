package harness

import (
	"fmt"
	"strings"
	"testing"

	"pgregory.net/rapid"
)

// ListRelCase: an expression and two related allowed lists.
type ListRelCase struct {
	Expr     string   `json:"expr"`
	A        []string `json:"a"`
	B        []string `json:"b"`
	Relation string   `json:"relation"` // "permute" | "duplicate" | "respell" | "extend"
}

func init() { registerReplay("c07-list", checkC07) }

// checkC07: set-preserving changes of the list keep the verdict; extending it never loses 'satisfied'.
func checkC07(c ListRelCase) Outcome {
	key := fmt.Sprintf("C07/%s/%s | %s | %s", c.Relation, c.Expr, strings.Join(c.A, ","), strings.Join(c.B, ","))
	ra, rb := Satisfies(c.Expr, c.A), Satisfies(c.Expr, c.B)
	if ra.Panic != "" || rb.Panic != "" {
		return fail(key, "panic: %s %s", ra.Panic, rb.Panic)
	}
	if ra.IsErr || rb.IsErr {
		return fail(key, "valid expression and valid single-term lists, but Satisfies(%q, %q) = %s and Satisfies(%q, %q) = %s", c.Expr, c.A, ra, c.Expr, c.B, rb)
	}
	if c.Relation == "extend" {
		if ra.OK && !rb.OK {
			return fail(key, "Satisfies(%q, %q) = true but after adding entries Satisfies(%q, %q) = false", c.Expr, c.A, c.Expr, c.B)
		}
		return pass()
	}
	if ra.OK != rb.OK {
		return fail(key, "Satisfies(%q, %q) = %v but for the %s list Satisfies(%q, %q) = %v", c.Expr, c.A, ra.OK, c.Relation+"d", c.Expr, c.B, rb.OK)
	}
	return pass()
}

func TestC07_Lists(t *testing.T) {
	rec := NewRecorder("C07", "lists", "rapid-generated (tree, allowed list A) as in C01, then a related list: generated permutation, generated duplications, re-spelling of entries (case of listed ids, surrounding spaces, 1-2 pairs of parentheses), or an extension with further valid single terms inserted at generated positions; oracle: same verdict for the set-preserving relations, Satisfies(e,A) => Satisfies(e,B) for extensions, never an error; non-trivial = A has >= 2 distinct entries and the related list differs textually; distinct by (expr, A, B)")
	defer rec.Finish(t)
	tb := Tbl()
	rec.Rapid(t, func(rt *rapid.T) {
		excPool := tb.DrawExcPool(rt)
		pool := tb.DrawPool(rt, excPool)
		tree := DrawTree(rt, len(pool), 5, 14)
		if tree.Alternatives() > 4096 {
			tree = &Node{Leaf: 0}
		}
		expr := tree.Render(Texts(pool), DrawSpacer(rt))
		allowed := tb.DrawAllowed(rt, pool, excPool, 8)
		a := Texts(allowed)
		c := ListRelCase{Expr: expr, A: a}
		switch rapid.IntRange(0, 3).Draw(rt, "relation") {
		case 0:
			c.Relation = "permute"
			c.B = rapid.Permutation(a).Draw(rt, "perm")
		case 1:
			c.Relation = "duplicate"
			c.B = append([]string{}, a...)
			for i := rapid.IntRange(1, 4).Draw(rt, "nDup"); i > 0; i-- {
				e := rapid.SampledFrom(a).Draw(rt, fmt.Sprintf("dup%d", i))
				pos := rapid.IntRange(0, len(c.B)).Draw(rt, fmt.Sprintf("dupPos%d", i))
				c.B = append(append(append([]string{}, c.B[:pos]...), e), c.B[pos:]...)
			}
		case 2:
			c.Relation = "respell"
			for i, t := range allowed {
				s := tb.respell(t, drawCase(rt, fmt.Sprintf("rc%d", i)), drawCase(rt, fmt.Sprintf("re%d", i))).Text
				for p := rapid.IntRange(0, 2).Draw(rt, fmt.Sprintf("par%d", i)); p > 0; p-- {
					s = "(" + drawSpaces(rt, fmt.Sprintf("pi%d.%d", i, p), 0, 2) + s + drawSpaces(rt, fmt.Sprintf("po%d.%d", i, p), 0, 2) + ")"
				}
				s = drawSpaces(rt, fmt.Sprintf("lead%d", i), 0, 3) + s + drawSpaces(rt, fmt.Sprintf("trail%d", i), 0, 3)
				c.B = append(c.B, s)
			}
		default:
			c.Relation = "extend"
			c.B = append([]string{}, a...)
			extra := tb.DrawAllowed(rt, pool, excPool, 4)
			if rapid.IntRange(0, 3).Draw(rt, "extendLong") == 0 {
				extra = tb.PadAllowed(rt, extra) // a long extension: 16-48 further entries
			}
			for i, e := range extra {
				pos := rapid.IntRange(0, len(c.B)).Draw(rt, fmt.Sprintf("extPos%d", i))
				c.B = append(append(append([]string{}, c.B[:pos]...), e.Text), c.B[pos:]...)
			}
		}
		out := checkC07(c)
		va := Satisfies(c.Expr, c.A).OK
		classes := []string{"rel-" + c.Relation}
		if len(c.B) >= 16 {
			classes = append(classes, "related-list-16-or-more-entries")
		}
		if va {
			classes = append(classes, "A-satisfies")
			if c.Relation == "extend" {
				classes = append(classes, "extend-premise-true")
			}
		} else {
			classes = append(classes, "A-does-not-satisfy")
			if c.Relation == "extend" && Satisfies(c.Expr, c.B).OK {
				classes = append(classes, "extend-flips-to-true")
			}
		}
		nontrivial := len(setOf(c.A)) >= 2 && strings.Join(c.A, "\x00") != strings.Join(c.B, "\x00")
		rec.Case(nontrivial, key3(c.Expr, c.A, c.B), map[string]any{"expr": c.Expr, "a": c.A, "b": c.B, "relation": c.Relation}, classes...)
		if !out.OK {
			rec.Fail(rt, "c07-list", out.Key, out.Msg, c)
		}
	})
}

func key3(e string, a, b []string) string {
	return e + " | " + strings.Join(a, ",") + " | " + strings.Join(b, ",")
}
