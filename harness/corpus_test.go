package harness

import (
	"encoding/json"
	"fmt"
	"os"
	"path/filepath"
	"sort"
	"testing"
)

// The regression tier: minimal reproducers of every defect ever found (repaired ones included),
// as plain checks that bypass the generators. Files: /verif/corpus/<ID>.json.

type CorpusEntry struct {
	Check string          `json:"check"`
	Note  string          `json:"note"`
	Case  json.RawMessage `json:"case"`
}

// plain regression forms with a hand-derived expectation
type SatExpect struct {
	Expr    string   `json:"expr"`
	Allowed []string `json:"allowed"`
	Want    bool     `json:"want"`
	WantErr bool     `json:"want_err"`
}

type ValidExpect struct {
	S    string `json:"s"`
	Want bool   `json:"want"`
}

type ExtractExpect struct {
	Expr string   `json:"expr"`
	Want []string `json:"want"` // as a set
}

func init() {
	registerReplay("corpus-sat", func(c SatExpect) Outcome {
		r := Satisfies(c.Expr, c.Allowed)
		key := fmt.Sprintf("corpus/sat/%s | %v", c.Expr, c.Allowed)
		if r.Panic != "" {
			return fail(key, "Satisfies(%q, %q) panicked: %s", c.Expr, c.Allowed, r.Panic)
		}
		if r.IsErr != c.WantErr || r.OK != c.Want {
			return fail(key, "Satisfies(%q, %q) = %s, expected (%v, error=%v)", c.Expr, c.Allowed, r, c.Want, c.WantErr)
		}
		return pass()
	})
	registerReplay("corpus-valid", func(c ValidExpect) Outcome {
		got, p := Valid1(c.S)
		key := "corpus/valid/" + c.S
		if p != "" {
			return fail(key, "ValidateLicenses({%q}) panicked: %s", c.S, p)
		}
		if got != c.Want {
			return fail(key, "ValidateLicenses({%q}) says valid=%v, expected %v", c.S, got, c.Want)
		}
		if where, msg := probePanic(c.S); where != "" {
			return fail(key, "%s panicked on %q: %s", where, c.S, msg)
		}
		return pass()
	})
	registerReplay("corpus-extract", func(c ExtractExpect) Outcome {
		r := Extract(c.Expr)
		key := "corpus/extract/" + c.Expr
		if r.Panic != "" || r.IsErr {
			return fail(key, "ExtractLicenses(%q) = %+v", c.Expr, r)
		}
		got, want := sortedKeys(setOf(r.Licenses)), append([]string{}, c.Want...)
		sort.Strings(want)
		if !sameStrings(got, want) || len(r.Licenses) != len(got) {
			return fail(key, "ExtractLicenses(%q) = %q, expected the set %q without duplicates", c.Expr, r.Licenses, want)
		}
		return pass()
	})
}

func TestCorpus(t *testing.T) {
	prop := os.Getenv("VERIF_PROP")
	if prop == "" {
		t.Skip("VERIF_PROP not set")
	}
	root := os.Getenv("VERIF_ROOT")
	if root == "" {
		root = ".."
	}
	rec := NewRecorder(prop, "corpus", "regression tier: hand-minimised reproducers of every defect found so far for this property (repaired ones included), evaluated by plain functions without generators; non-trivial = every entry; distinct by entry")
	rec.Exhaustive = true
	defer rec.Finish(t)
	data, err := os.ReadFile(filepath.Join(root, "corpus", prop+".json"))
	if err != nil {
		rec.Note("no corpus file for %s", prop)
		return
	}
	var entries []CorpusEntry
	if err := json.Unmarshal(data, &entries); err != nil {
		t.Fatalf("corpus/%s.json: %v", prop, err)
	}
	for i, e := range entries {
		f, ok := replayers[e.Check]
		if !ok {
			t.Fatalf("corpus/%s.json entry %d: unknown check %q", prop, i, e.Check)
		}
		out, err := f(e.Case)
		if err != nil {
			t.Fatalf("corpus/%s.json entry %d: %v", prop, i, err)
		}
		rec.Case(true, fmt.Sprintf("%d/%s", i, e.Case), map[string]any{"check": e.Check, "note": e.Note, "case": e.Case}, "corpus-"+e.Check)
		if !out.OK {
			rec.Violate(e.Check, out.Key, out.Msg+" [corpus entry: "+e.Note+"]", json.RawMessage(e.Case))
		}
	}
}
