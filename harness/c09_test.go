package harness

import (
	"fmt"
	"strings"
	"testing"
)

// CaseVarCase: a listed id, a re-cased copy and a position to test it in.
type CaseVarCase struct {
	ID      string `json:"id"`      // list spelling
	Variant string `json:"variant"` // re-cased
	IsExc   bool   `json:"is_exc"`
}

func init() { registerReplay("c09-case", checkC09) }

func sameStrings(a, b []string) bool {
	if len(a) != len(b) {
		return false
	}
	for i := range a {
		if a[i] != b[i] {
			return false
		}
	}
	return true
}

// checkC09: validity, Satisfies and ExtractLicenses are identical for the list-cased original and
// the re-cased variant, in every position; ExtractLicenses reports the list's own spelling.
func checkC09(c CaseVarCase) Outcome {
	key := "C09/" + c.ID
	mk := func(s string) string {
		if c.IsExc {
			return "Apache-2.0 WITH " + s
		}
		return s
	}
	o, v := mk(c.ID), mk(c.Variant)
	// sole expression: validity
	vo, po := Valid1(o)
	vv, pv := Valid1(v)
	if po != "" || pv != "" {
		return fail(key, "panic validating %q / %q: %s %s", o, v, po, pv)
	}
	if !vo {
		return fail(key, "the listed spelling %q is not a valid expression", o)
	}
	if !vv {
		return fail(key, "%q is valid but the re-cased %q is not", o, v)
	}
	if c.IsExc {
		// an exception id stays an exception whatever its case: never a license term
		if bad, _ := Valid1(c.Variant); bad {
			return fail(key, "the re-cased exception id %q is accepted as a license term", c.Variant)
		}
	}
	// Extract: identical output, containing the list spelling
	eo, ev := Extract(o), Extract(v)
	if eo.Panic != "" || ev.Panic != "" || eo.IsErr || ev.IsErr {
		return fail(key, "ExtractLicenses(%q) = %+v, ExtractLicenses(%q) = %+v", o, eo, v, ev)
	}
	if !sameStrings(eo.Licenses, ev.Licenses) {
		return fail(key, "ExtractLicenses(%q) = %q but ExtractLicenses(%q) = %q", o, eo.Licenses, v, ev.Licenses)
	}
	if len(ev.Licenses) != 1 || !strings.Contains(ev.Licenses[0], c.ID) {
		return fail(key, "ExtractLicenses(%q) = %q does not report the id in the list's own casing %q", v, ev.Licenses, c.ID)
	}
	comp := func(s string) string { return fmt.Sprintf("ISC AND (%s OR Zlib) AND (%s)", s, s) }
	other := "ISC"
	type probe struct {
		name string
		f    func(s string) SatRes
	}
	probes := []probe{
		{"expression vs original", func(s string) SatRes { return Satisfies(s, []string{o}) }},
		{"allowed entry vs original", func(s string) SatRes { return Satisfies(o, []string{s}) }},
		{"both sides", func(s string) SatRes { return Satisfies(s, []string{s}) }},
		{"expression vs unrelated", func(s string) SatRes { return Satisfies(s, []string{other}) }},
		{"inside compound expression", func(s string) SatRes { return Satisfies(comp(s), []string{"ISC", o}) }},
		{"inside compound expression, allowed re-cased", func(s string) SatRes { return Satisfies(comp(o), []string{"ISC", s}) }},
		{"plus form", func(s string) SatRes {
			if c.IsExc {
				return Satisfies("Apache-2.0+ WITH "+strings.TrimPrefix(s, "Apache-2.0 WITH "), []string{"Apache-1.0+ WITH " + c.ID})
			}
			return Satisfies(s+"+", []string{o})
		}},
	}
	if !c.IsExc {
		// other versions of the id's family, with and without '+', on either side
		for _, rel := range Tbl().Relatives(c.ID) {
			for _, r := range []string{rel, rel + "+"} {
				r := r
				probes = append(probes,
					probe{"as allowed entry against " + r, func(s string) SatRes { return Satisfies(r, []string{s}) }},
					probe{"as expression against " + r, func(s string) SatRes { return Satisfies(s, []string{r}) }},
					probe{"with '+' as allowed entry against " + r, func(s string) SatRes { return Satisfies(r, []string{s + "+"}) }})
			}
		}
	}
	for _, p := range probes {
		ro, rv := p.f(o), p.f(v)
		if ro.Panic != "" || rv.Panic != "" {
			return fail(key, "%s: panic %s %s", p.name, ro.Panic, rv.Panic)
		}
		if ro.IsErr != rv.IsErr || ro.OK != rv.OK {
			return fail(key, "%s: with the listed spelling %q the result is %s, with %q it is %s", p.name, o, ro, v, rv)
		}
	}
	return pass()
}

// TestC09_Sweep: every listed license and exception id x case variants x positions.
func TestC09_Sweep(t *testing.T) {
	cfg := Cfg()
	mixes := cfg.Pick(1, 8)
	rec := NewRecorder("C09", "sweep", fmt.Sprintf("EVERY listed license id (active, deprecated) and exception id x {lower, upper, %d seeded mixed-case variants} x positions {sole expression, allowed entry, both, against an unrelated id, inside a compound expression on either side, with '+', exception after WITH}; oracle: validity / Satisfies / ExtractLicenses identical to the list-cased original and ExtractLicenses reports the list casing; non-trivial = variant differs from the listed spelling; distinct by (id, variant)", mixes))
	rec.Exhaustive = true
	defer rec.Finish(t)
	tb := Tbl()
	type job struct {
		id    string
		isExc bool
	}
	var jobs []job
	for _, id := range tb.AllLic {
		jobs = append(jobs, job{id, false})
	}
	for _, id := range tb.Exceptions {
		jobs = append(jobs, job{id, true})
	}
	parallelFor(len(jobs), func(i int) {
		j := jobs[i]
		variants := []string{strings.ToLower(j.id), strings.ToUpper(j.id)}
		for m := 0; m < mixes; m++ {
			bits := uint32(hash64(fmt.Sprintf("%d/%s/%d", cfg.Seed, j.id, m)))
			if bits < 3 {
				bits = 0x5a5a5a5a
			}
			variants = append(variants, recase(j.id, bits))
		}
		for _, v := range variants {
			c := CaseVarCase{ID: j.id, Variant: v, IsExc: j.isExc}
			out := checkC09(c)
			cls := "license"
			if j.isExc {
				cls = "exception"
			}
			rec.Case(v != j.id, j.id+"|"+v, fmt.Sprintf("%s -> %s", j.id, v), cls)
			rec.Count(18)
			if !out.OK {
				rec.Violate("c09-case", out.Key, out.Msg, c)
			}
		}
	})
}

// TwoSpellingCase: the same tree and allowed list spelled twice (list casing vs re-cased ids).
type TwoSpellingCase struct {
	Tree     *Node    `json:"tree"`
	Pool1    []string `json:"pool1"`
	Pool2    []string `json:"pool2"`
	Expr1    string   `json:"expr1"`
	Expr2    string   `json:"expr2"`
	Allowed1 []string `json:"allowed1"`
	Allowed2 []string `json:"allowed2"`
}

func init() { registerReplay("c09-tree", checkC09Tree) }

func checkC09Tree(c TwoSpellingCase) Outcome {
	key := "C09/tree/" + c.Expr2 + " | " + strings.Join(c.Allowed2, ",")
	r1, r2 := Satisfies(c.Expr1, c.Allowed1), Satisfies(c.Expr2, c.Allowed2)
	if r1.Panic != "" || r2.Panic != "" {
		return fail(key, "panic: %s %s", r1.Panic, r2.Panic)
	}
	if r1.IsErr || r2.IsErr {
		return fail(key, "valid input but Satisfies(%q, %q) = %s and Satisfies(%q, %q) = %s", c.Expr1, c.Allowed1, r1, c.Expr2, c.Allowed2, r2)
	}
	if r1.OK != r2.OK {
		return fail(key, "Satisfies(%q, %q) = %v but with re-cased identifiers Satisfies(%q, %q) = %v", c.Expr1, c.Allowed1, r1.OK, c.Expr2, c.Allowed2, r2.OK)
	}
	// mixed: re-cased expression against list-cased allowed list and vice versa
	r3, r4 := Satisfies(c.Expr2, c.Allowed1), Satisfies(c.Expr1, c.Allowed2)
	if r3.IsErr || r4.IsErr || r3.OK != r1.OK || r4.OK != r1.OK {
		return fail(key, "Satisfies(%q, %q) = %s, Satisfies(%q, %q) = %s, expected both (%v, nil)", c.Expr2, c.Allowed1, r3, c.Expr1, c.Allowed2, r4, r1.OK)
	}
	e1, e2 := Extract(c.Expr1), Extract(c.Expr2)
	if e1.Panic != "" || e2.Panic != "" || e1.IsErr || e2.IsErr {
		return fail(key, "ExtractLicenses(%q) = %+v; ExtractLicenses(%q) = %+v", c.Expr1, e1, c.Expr2, e2)
	}
	if !sameStrings(e1.Licenses, e2.Licenses) {
		return fail(key, "ExtractLicenses(%q) = %q but with re-cased identifiers ExtractLicenses(%q) = %q", c.Expr1, e1.Licenses, c.Expr2, e2.Licenses)
	}
	return pass()
}
