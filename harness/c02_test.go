package harness

import (
	"fmt"
	"testing"

	"pgregory.net/rapid"
)

type PairCase struct {
	A Term `json:"a"`
	B Term `json:"b"`
}

func init() { registerReplay("c02-match", checkC02) }

// checkC02: Satisfies(a,{b}) == documented matching relation; symmetric; reflexive.
func checkC02(c PairCase) Outcome {
	tb := Tbl()
	key := fmt.Sprintf("C02/match/%s | %s", c.A.Text, c.B.Text)
	ab := Satisfies(c.A.Text, []string{c.B.Text})
	ba := Satisfies(c.B.Text, []string{c.A.Text})
	aa := Satisfies(c.A.Text, []string{c.A.Text})
	for _, r := range []SatRes{ab, ba, aa} {
		if r.Panic != "" {
			return fail("C02/panic/"+c.A.Text+" | "+c.B.Text, "panic: %s", r.Panic)
		}
		if r.IsErr {
			return fail("C02/error/"+c.A.Text+" | "+c.B.Text, "valid single terms %q, %q: Satisfies returned %s", c.A.Text, c.B.Text, r)
		}
	}
	if !aa.OK {
		return fail("C02/reflexive/"+c.A.Text, "Satisfies(%q, {%q}) = false: a valid term must match itself", c.A.Text, c.A.Text)
	}
	if ab.OK != ba.OK {
		return fail("C02/symmetry/"+c.A.Text+" | "+c.B.Text, "Satisfies(%q,{%q})=%v but Satisfies(%q,{%q})=%v", c.A.Text, c.B.Text, ab.OK, c.B.Text, c.A.Text, ba.OK)
	}
	want := tb.Match(c.A, c.B)
	if ab.OK != want {
		return fail(key, "Satisfies(%q, {%q}) = %v, the documented rules give %v (a: id=%s plus=%v exc=%q; b: id=%s plus=%v exc=%q; table positions %v / %v)",
			c.A.Text, c.B.Text, ab.OK, want, c.A.ID, c.A.Plus, c.A.Exc, c.B.ID, c.B.Plus, c.B.Exc, tb.Positions(c.A.ID), tb.Positions(c.B.ID))
	}
	return pass()
}

func pairClasses(tb *Tables, a, b Term) (classes []string, nontrivial bool) {
	if a.Kind != b.Kind {
		return []string{"license-vs-ref"}, true
	}
	if a.Kind == "ref" {
		switch {
		case a.Ref == b.Ref && a.Doc == b.Doc:
			classes = append(classes, "ref-equal")
		case a.Ref == b.Ref:
			classes = append(classes, "ref-same-doc-differs")
		default:
			classes = append(classes, "ref-differs")
		}
		return classes, a.Text != b.Text || a.Doc != ""
	}
	fa, va, oka := tb.famVer(a.ID)
	fb, vb, okb := tb.famVer(b.ID)
	same := oka && okb && fa == fb
	switch {
	case a.ID == b.ID:
		classes = append(classes, "same-id")
	case same && va == vb:
		classes = append(classes, "family-eq-version")
	case same && va < vb:
		classes = append(classes, "family-b-later")
	case same:
		classes = append(classes, "family-b-earlier")
	case oka && okb:
		classes = append(classes, "cross-family")
	default:
		classes = append(classes, "unrelated")
	}
	switch {
	case a.Plus && b.Plus:
		classes = append(classes, "both-plus")
	case a.Plus || b.Plus:
		classes = append(classes, "one-plus")
	default:
		classes = append(classes, "no-plus")
	}
	switch {
	case a.Exc == "" && b.Exc == "":
	case a.Exc == b.Exc:
		classes = append(classes, "exc-same")
	case a.Exc == "" || b.Exc == "":
		classes = append(classes, "exc-one-sided")
	default:
		classes = append(classes, "exc-different")
	}
	if tb.Match(a, b) {
		classes = append(classes, "match")
	} else {
		classes = append(classes, "no-match")
	}
	nontrivial = a.Text != b.Text && (same || a.Plus || b.Plus || a.Exc != "" || b.Exc != "")
	return classes, nontrivial
}

const c02Rule = "oracle: Satisfies(a,{b}) == reference matcher over the shipped family table (DESIGN.md 3.5), plus symmetry and reflexivity; ids at more than one table position are excluded (reported by C11); non-trivial = texts differ and a family relation, a '+', an exception or a reference is involved; distinct by (a,b) text"

func c02Do(rec *Recorder, rt *rapid.T, a, b Term, extra string) {
	tb := Tbl()
	if (a.Kind == "lic" && tb.MultiPosition(a.ID)) || (b.Kind == "lic" && tb.MultiPosition(b.ID)) {
		rec.Exclude("id at more than one table position (C11 dup finding)")
		return
	}
	c := PairCase{A: a, B: b}
	out := checkC02(c)
	classes, nontrivial := pairClasses(tb, a, b)
	if extra != "" {
		classes = append(classes, extra)
	}
	rec.Case(nontrivial, a.Text+" | "+b.Text, a.Text+" | "+b.Text, classes...)
	rec.Count(2) // three Satisfies calls per pair
	if !out.OK {
		if rt != nil {
			rec.Fail(rt, "c02-match", out.Key, out.Msg, c)
		} else {
			rec.Violate("c02-match", out.Key, out.Msg, c)
		}
	}
}

// forms valid for a base
func (t *Tables) validForms(base string) []string {
	var out []string
	for _, f := range []string{"", "+", "-only", "-or-later"} {
		if t.FormValid(base, f) {
			out = append(out, f)
		}
	}
	return out
}

// TestC02_Families: exhaustive over every table family: every ordered pair of ids x every form on
// both sides; every id against itself in every form and three case variants; exceptions on a
// rotating subset.
func TestC02_Families(t *testing.T) {
	rec := NewRecorder("C02", "families", "EVERY ordered pair of ids inside every family of the shipped table, and every family id against every listed id that shares its name stem but is outside the family, x forms {plain,+,-only,-or-later} on both sides; every family id against itself in every form x {listed,lower,upper} case; exceptions {none,E1,E2} on both sides for a rotating subset; "+c02Rule)
	rec.Exhaustive = true
	defer rec.Finish(t)
	tb := Tbl()
	type job struct{ a, b Term }
	var jobs []job
	e1, e2 := tb.Exceptions[0], tb.Exceptions[len(tb.Exceptions)/2]
	n := 0
	cousins := map[string][]string{}
	for _, id := range tb.AllLic {
		if v := ParseVer(id); v.OK {
			cousins[v.Stem] = append(cousins[v.Stem], id)
		}
	}
	for _, fam := range tb.Ranges {
		var ids []string
		seen := map[string]bool{}
		for _, grp := range fam {
			for _, id := range grp {
				if idShaped(id) && tb.IsListedLicense(id) && !seen[id] {
					seen[id] = true
					ids = append(ids, id)
				}
			}
		}
		for _, x := range ids {
			for _, y := range ids {
				for _, fx := range tb.validForms(x) {
					for _, fy := range tb.validForms(y) {
						jobs = append(jobs, job{tb.MakeLicTerm(x, fx, 0, "", 0, "", ""), tb.MakeLicTerm(y, fy, 0, "", 0, "", "")})
						n++
						if n%3 == 0 { // rotating subset in other letter case
							jobs = append(jobs, job{tb.MakeLicTerm(x, fx, uint32(1+n%2), "", 0, "", ""), tb.MakeLicTerm(y, fy, uint32(1+(n/2)%2), "", 0, "", "")})
						}
						if n%7 == 0 { // rotating subset with exceptions
							excs := [][2]string{{e1, e1}, {e1, e2}, {e1, ""}, {"", e2}}
							ex := excs[(n/7)%len(excs)]
							jobs = append(jobs, job{tb.MakeLicTerm(x, fx, 0, ex[0], 0, "", ""), tb.MakeLicTerm(y, fy, 0, ex[1], uint32(n%3), "", "")})
						}
					}
				}
			}
			// "cousins": listed ids that share x's name stem but sit outside this table family
			// (GFDL-1.1-invariants-or-later, GPL-2.0-with-GCC-exception, CC-BY-3.0-AT, ...)
			for _, y := range cousins[ParseVer(x).Stem] {
				if seen[y] {
					continue
				}
				for _, fx := range tb.validForms(x) {
					for _, fy := range tb.validForms(y) {
						jobs = append(jobs, job{tb.MakeLicTerm(x, fx, 0, "", 0, "", ""), tb.MakeLicTerm(y, fy, 0, "", 0, "", "")},
							job{tb.MakeLicTerm(y, fy, 0, "", 0, "", ""), tb.MakeLicTerm(x, fx, 0, "", 0, "", "")})
					}
				}
			}
			for _, fx := range tb.validForms(x) {
				for cv := uint32(0); cv < 3; cv++ {
					for cw := uint32(0); cw < 3; cw++ {
						jobs = append(jobs, job{tb.MakeLicTerm(x, fx, cv, "", 0, "", ""), tb.MakeLicTerm(x, fx, cw, "", 0, "", "")})
					}
				}
			}
		}
	}
	// versioned ids that share a name stem but sit in NO table family (Spencer-86/94/99, OGL-UK-1.0/2.0/3.0,
	// W3C-..., Python-2.0/2.0.1, ...): every pair x form; by the shipped table they never match each other
	for _, group := range cousins {
		var out []string
		for _, id := range group {
			if len(tb.Positions(id)) == 0 && ParseVer(id).Tail == "" {
				out = append(out, id)
			}
		}
		if len(out) < 2 || len(out) > 12 {
			continue
		}
		for _, x := range out {
			for _, y := range out {
				if x == y {
					continue
				}
				for _, fx := range []string{"", "+"} {
					for _, fy := range []string{"", "+"} {
						jobs = append(jobs, job{tb.MakeLicTerm(x, fx, 0, "", 0, "", ""), tb.MakeLicTerm(y, fy, 0, "", 0, "", "")})
					}
				}
			}
		}
	}
	parallelFor(len(jobs), func(i int) { c02Do(rec, nil, jobs[i].a, jobs[i].b, "") })
}

// TestC02_AllPairs (thorough): every listed id x every listed id x {plain,+} on both sides.
func TestC02_AllPairs(t *testing.T) {
	cfg := Cfg()
	rec := NewRecorder("C02", "all-pairs", "every listed license id x every listed license id x {plain,+} on both sides (quick: a seeded 1/40 slice of the rows, thorough: all); "+c02Rule)
	defer rec.Finish(t)
	tb := Tbl()
	ids := tb.AllLic
	stride := cfg.Pick(40, 1)
	rec.Exhaustive = stride == 1
	off := int(uint64(cfg.Seed) % uint64(stride))
	var rows []int
	for i := off; i < len(ids); i += stride {
		rows = append(rows, i)
	}
	parallelFor(len(rows), func(r int) {
		x := ids[rows[r]]
		for _, y := range ids {
			for _, fx := range []string{"", "+"} {
				for _, fy := range []string{"", "+"} {
					c02Do(rec, nil, tb.MakeLicTerm(x, fx, 0, "", 0, "", ""), tb.MakeLicTerm(y, fy, 0, "", 0, "", ""), "")
				}
			}
		}
	})
}

// TestC02_Random: generated pairs of arbitrary terms (any listed id, cross-family, refs, exceptions, case).
func TestC02_Random(t *testing.T) {
	rec := NewRecorder("C02", "random", "rapid-generated ordered pairs of single terms: any listed id (family-biased) in any asserted form and case, with/without exceptions, LicenseRef / DocumentRef terms incl. names differing only in case; b is drawn related to a half of the time; "+c02Rule)
	defer rec.Finish(t)
	tb := Tbl()
	rec.Rapid(t, func(rt *rapid.T) {
		excPool := tb.DrawExcPool(rt)
		draw := func(label string, rel *Term) Term {
			if rel != nil && rel.Kind == "ref" && rapid.Bool().Draw(rt, label+"RelRef") {
				switch rapid.IntRange(0, 2).Draw(rt, label+"RefHow") {
				case 0:
					return MakeRefTerm(rel.Doc, rel.Ref)
				case 1:
					return MakeRefTerm("", rel.Ref)
				}
				return MakeRefTerm(rapid.SampledFrom(docNames).Draw(rt, label+"Doc"), rel.Ref)
			}
			if rapid.IntRange(0, 4).Draw(rt, label+"IsRef") == 0 {
				return DrawRefTerm(rt, label)
			}
			var base string
			if rel != nil && rel.Kind == "lic" && rapid.IntRange(0, 3).Draw(rt, label+"Related") > 0 {
				base = rapid.SampledFrom(tb.Relatives(rel.Base)).Draw(rt, label+"RelBase")
			} else {
				base = tb.DrawBase(rt, label)
			}
			term := tb.DrawLicTermOf(rt, base, excPool, label)
			if rel != nil && rel.Exc != "" && term.Exc == "" && rapid.Bool().Draw(rt, label+"SameExc") {
				term = tb.withExc(term, rel.Exc, drawCase(rt, label+"ExcCase2"))
			}
			return term
		}
		a := draw("a", nil)
		b := draw("b", &a)
		c02Do(rec, rt, a, b, "")
	})
}
