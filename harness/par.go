package harness

import (
	"runtime"
	"sync"
)

// parallelFor runs f(i) for i in [0,n) on all cores; sweeps are order-independent by construction.
func parallelFor(n int, f func(i int)) {
	nw := runtime.GOMAXPROCS(0)
	if nw > n {
		nw = n
	}
	if nw < 1 {
		nw = 1
	}
	var wg sync.WaitGroup
	for w := 0; w < nw; w++ {
		wg.Add(1)
		go func(w int) {
			defer wg.Done()
			for i := w; i < n; i += nw {
				f(i)
			}
		}(w)
	}
	wg.Wait()
}
