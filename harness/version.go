package harness

import (
	"regexp"
	"strconv"
	"strings"
)

// §3.6 Natural version order, independent of the family table.

type Ver struct {
	Stem string // e.g. "CC-BY-NC-SA"
	Nums []int  // 2.0.1 -> [2 0 1]
	Let  string // trailing letter of the version ("a" in 1.3a) or ""
	Tail string // what follows the version, e.g. "-DE", "-Clause", "" (suffixes -only/-or-later/+ are stripped first)
	OK   bool
}

var verSeg = regexp.MustCompile(`^(\d+(?:\.\d+)*)([a-z]?)$`)

// ParseVer splits an id into stem, version and tail. -only / -or-later are stripped first.
func ParseVer(id string) Ver {
	id = strings.TrimSuffix(strings.TrimSuffix(id, "-or-later"), "-only")
	segs := strings.Split(id, "-")
	for i := 1; i < len(segs); i++ {
		m := verSeg.FindStringSubmatch(segs[i])
		if m == nil {
			continue
		}
		v := Ver{Stem: strings.Join(segs[:i], "-"), Let: m[2], OK: true}
		for _, p := range strings.Split(m[1], ".") {
			n, err := strconv.Atoi(p)
			if err != nil {
				return Ver{}
			}
			v.Nums = append(v.Nums, n)
		}
		if i+1 < len(segs) {
			v.Tail = "-" + strings.Join(segs[i+1:], "-")
		}
		return v
	}
	return Ver{}
}

// CmpVer compares versions component-wise (missing components count as 0), then by letter.
func CmpVer(a, b Ver) int {
	n := len(a.Nums)
	if len(b.Nums) > n {
		n = len(b.Nums)
	}
	for i := 0; i < n; i++ {
		x, y := 0, 0
		if i < len(a.Nums) {
			x = a.Nums[i]
		}
		if i < len(b.Nums) {
			y = b.Nums[i]
		}
		if x != y {
			if x < y {
				return -1
			}
			return 1
		}
	}
	return strings.Compare(a.Let, b.Let)
}
