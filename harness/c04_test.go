package harness

import (
	"fmt"
	"strings"
	"testing"

	"pgregory.net/rapid"
)

// Entry is one generated string plus what the generator knows about it.
type Entry struct {
	S StrCase `json:"s"`
	// OpKnown: whether the string contains an AND/OR operator token is known (from the token kinds,
	// or because the text contains neither "AND" nor "OR"). A valid string is a compound
	// expression iff it contains such a token (parentheses are transparent, terms contain none).
	OpKnown bool   `json:"op_known"`
	HasOp   bool   `json:"has_op"`
	Origin  string `json:"origin"`
}

type AgreeCase struct {
	Expr Entry   `json:"expr"`
	List []Entry `json:"list"`
	Nil  bool    `json:"nil"`
}

func init() { registerReplay("c04-agreement", checkC04) }

func entryFromToks(toks []Tok, sp *Spacer, origin string) Entry {
	e := Entry{S: mkStr(RenderToks(toks, sp)), OpKnown: true, Origin: origin}
	for _, t := range toks {
		if t.K == kAND || t.K == kOR {
			e.HasOp = true
		}
		if t.K == kODD {
			e.OpKnown = false
		}
	}
	if !e.OpKnown {
		s := e.S.S()
		if !strings.Contains(s, "AND") && !strings.Contains(s, "OR") {
			e.OpKnown, e.HasOp = true, false
		}
	}
	return e
}

func entryFromRaw(s, origin string) Entry {
	return Entry{S: mkStr(s), OpKnown: !strings.Contains(s, "AND") && !strings.Contains(s, "OR"), Origin: origin}
}

func drawEntry(rt *rapid.T, label string, wantValidSingle bool) Entry {
	tb := Tbl()
	mode := rapid.IntRange(0, 9).Draw(rt, label+"Mode")
	if wantValidSingle {
		excPool := tb.DrawExcPool(rt)
		var term Term
		if rapid.IntRange(0, 3).Draw(rt, label+"Ref") == 0 {
			term = DrawRefTerm(rt, label)
		} else {
			term = tb.DrawLicTermOf(rt, tb.DrawBase(rt, label), excPool, label)
		}
		toks := TermToks(term)
		for i := rapid.IntRange(0, 2).Draw(rt, label+"Paren"); i > 0 && rapid.Bool().Draw(rt, label+"ParenOn"); i-- {
			toks = wrapToks(toks)
		}
		return entryFromToks(toks, DrawSpacer(rt), "valid-single")
	}
	switch {
	case mode < 4: // valid expression from a tree
		excPool := tb.DrawExcPool(rt)
		pool := tb.DrawPool(rt, excPool)
		maxLeaves := 1
		if rapid.Bool().Draw(rt, label+"Compound") {
			maxLeaves = 6
		}
		tree := DrawTree(rt, len(pool), 3, maxLeaves)
		return entryFromToks(tree.Toks(pool), DrawSpacer(rt), "tree")
	case mode < 7:
		return entryFromToks(tb.DrawToks(rt, 1, 8, true), DrawSpacer(rt), "tokens")
	case mode < 9: // single token edit of a valid expression
		excPool := tb.DrawExcPool(rt)
		pool := tb.DrawPool(rt, excPool)
		toks := DrawTree(rt, len(pool), 3, 5).Toks(pool)
		pos := rapid.IntRange(0, len(toks)-1).Draw(rt, label+"Pos")
		if rapid.Bool().Draw(rt, label+"Del") {
			toks = append(append([]Tok{}, toks[:pos]...), toks[pos+1:]...)
		} else {
			toks = append(append(append([]Tok{}, toks[:pos]...), tb.DrawTok(rt, label+"Ins", true)), toks[pos:]...)
		}
		return entryFromToks(toks, DrawSpacer(rt), "edit")
	}
	if rapid.Bool().Draw(rt, label+"Hostile") {
		return entryFromRaw(rapid.SampledFrom(hostile).Draw(rt, label+"H"), "hostile")
	}
	return entryFromRaw(string(rapid.SliceOfN(rapid.SampledFrom([]byte(" ()+:-.\t\x00\xffMITmit20WHANDOR")), 0, 16).Draw(rt, label+"Raw")), "raw")
}

// checkC04: all entry points agree on validity; errors exactly for invalid input.
func checkC04(c AgreeCase) Outcome {
	valid := map[string]bool{}
	all := append([]Entry{c.Expr}, c.List...)
	for _, e := range all {
		s := e.S.S()
		if _, seen := valid[s]; seen {
			continue
		}
		v, p := Valid1(s)
		if p != "" {
			return fail("C04/panic/"+shortKey(s), "ValidateLicenses({%s}) panicked: %s", shortKey(s), p)
		}
		valid[s] = v
	}
	var list []string
	if !c.Nil {
		list = []string{}
	}
	var wantInvalid []string
	for _, e := range c.List {
		list = append(list, e.S.S())
		if !valid[e.S.S()] {
			wantInvalid = append(wantInvalid, e.S.S())
		}
	}
	keyL := shortKey(fmt.Sprintf("%q", list))

	// ValidateLicenses on the whole list
	vr := Validate(list)
	if vr.Panic != "" {
		return fail("C04/panic/"+keyL, "ValidateLicenses(%q) panicked: %s", list, vr.Panic)
	}
	if vr.Valid != (len(wantInvalid) == 0) {
		return fail("C04/validate-bool/"+keyL, "ValidateLicenses(%q) returned %v but the invalid elements (each validated alone) are %q", list, vr.Valid, wantInvalid)
	}
	if len(vr.Invalid) != len(wantInvalid) {
		return fail("C04/validate-list/"+keyL, "ValidateLicenses(%q) reported %q, expected exactly %q (in order, with multiplicity)", list, vr.Invalid, wantInvalid)
	}
	for i := range wantInvalid {
		if vr.Invalid[i] != wantInvalid[i] {
			return fail("C04/validate-list/"+keyL, "ValidateLicenses(%q) reported %q, expected exactly %q (in order, with multiplicity)", list, vr.Invalid, wantInvalid)
		}
	}

	// ExtractLicenses on every string
	for _, e := range all {
		s := e.S.S()
		er := Extract(s)
		if er.Panic != "" {
			return fail("C04/panic/"+shortKey(s), "ExtractLicenses(%s) panicked: %s", shortKey(s), er.Panic)
		}
		if er.IsErr == valid[s] {
			return fail("C04/extract-error/"+shortKey(s), "ExtractLicenses(%s): error=%v (%q) but ValidateLicenses says valid=%v", shortKey(s), er.IsErr, er.Err, valid[s])
		}
		if er.IsErr && !er.Nil {
			return fail("C04/extract-result-with-error/"+shortKey(s), "ExtractLicenses(%s) returned %q together with error %q", shortKey(s), er.Licenses, er.Err)
		}
	}

	// Satisfies
	expr := c.Expr.S.S()
	wantErr := !valid[expr] || len(c.List) == 0
	unknown := false
	for _, e := range c.List {
		s := e.S.S()
		switch {
		case !valid[s]:
			wantErr = true
		case !e.OpKnown:
			unknown = true
		case e.HasOp:
			wantErr = true
		}
	}
	sr := Satisfies(expr, list)
	key := shortKey(fmt.Sprintf("%q | %q", expr, list))
	if sr.Panic != "" {
		return fail("C04/panic/"+key, "Satisfies(%q, %q) panicked: %s", expr, list, sr.Panic)
	}
	if sr.IsErr && sr.OK {
		return fail("C04/satisfies-true-with-error/"+key, "Satisfies(%q, %q) returned true together with error %q", expr, list, sr.Err)
	}
	if !wantErr && unknown {
		return pass() // whether some valid entry is compound is not known for this raw string: not asserted
	}
	if sr.IsErr != wantErr {
		return fail("C04/satisfies-error/"+key, "Satisfies(%q, %q) = %s; an error is due iff the expression is invalid (valid=%v), the list is empty, or an entry is invalid or compound: expected error=%v", expr, list, sr, valid[expr], wantErr)
	}
	return pass()
}

func TestC04_Agreement(t *testing.T) {
	rec := NewRecorder("C04", "agreement", "strings = valid trees / token sequences incl. open spellings / single token edits / raw bytes; lists of 0-8 such strings with repeats and with confusable twins of earlier entries (re-cased, tabs for blanks, blanks doubled / trimmed / collapsed) (40% of lists all valid single terms); oracle: ValidateLicenses(L) == [s in L | s invalid alone], ExtractLicenses errs iff invalid (and then returns nil), Satisfies errs iff expr invalid or list empty or an entry invalid/compound (and then returns false); non-trivial = list mixes valid and invalid entries, or has a compound entry, or the expression is invalid; distinct by content")
	defer rec.Finish(t)
	rec.Rapid(t, func(rt *rapid.T) {
		var c AgreeCase
		allSingle := rapid.IntRange(0, 9).Draw(rt, "allSingle") < 4
		n := rapid.IntRange(0, 8).Draw(rt, "n")
		if n == 0 {
			c.Nil = rapid.Bool().Draw(rt, "nil")
		}
		if rapid.IntRange(0, 11).Draw(rt, "long") == 0 {
			// a long list: a few generated entries repeated up to a length around the sizes at which
			// implementations switch strategy (32, 64, 128, 256, ...), invalid ones mostly near the end
			base := make([]Entry, rapid.IntRange(1, 4).Draw(rt, "longBase"))
			for i := range base {
				base[i] = drawEntry(rt, fmt.Sprintf("lb%d", i), true)
			}
			target := rapid.SampledFrom([]int{31, 33, 63, 64, 65, 66, 67, 100, 127, 129, 255, 257, 300}).Draw(rt, "longLen")
			for len(c.List) < target {
				c.List = append(c.List, base[len(c.List)%len(base)])
			}
			for i, k := 0, rapid.IntRange(0, 3).Draw(rt, "longBad"); i < k; i++ {
				pos := target - 1 - rapid.IntRange(0, 5).Draw(rt, fmt.Sprintf("longBadPos%d", i))
				c.List[pos] = drawEntry(rt, fmt.Sprintf("lbad%d", i), false)
			}
			n = 0
			rec.Class("long-list")
		}
		for i := 0; i < n; i++ {
			if i > 0 && rapid.IntRange(0, 5).Draw(rt, fmt.Sprintf("dup%d", i)) == 0 {
				c.List = append(c.List, rapid.SampledFrom(c.List).Draw(rt, fmt.Sprintf("dupOf%d", i)))
				continue
			}
			if i > 0 && rapid.IntRange(0, 5).Draw(rt, fmt.Sprintf("twin%d", i)) == 0 {
				// a confusable twin of an earlier entry of the SAME list: equal after case folding or after
				// whitespace normalisation, yet possibly of different validity (operators, reference
				// prefixes and the blank are exact) - the shape a per-call memo with a folded key gets wrong
				src := rapid.SampledFrom(c.List).Draw(rt, fmt.Sprintf("twinOf%d", i)).S.S()
				var tw string
				switch rapid.IntRange(0, 5).Draw(rt, fmt.Sprintf("twinHow%d", i)) {
				case 0:
					tw = strings.ToLower(src)
				case 1:
					tw = strings.ToUpper(src)
				case 2:
					tw = strings.ReplaceAll(src, " ", "\t")
				case 3:
					tw = " " + strings.ReplaceAll(src, " ", "  ") + " "
				case 4:
					tw = strings.TrimSpace(src)
				default:
					tw = strings.Join(strings.Fields(src), " ")
				}
				c.List = append(c.List, entryFromRaw(tw, "twin"))
				rec.Class("list-has-twin")
				continue
			}
			c.List = append(c.List, drawEntry(rt, fmt.Sprintf("e%d", i), allSingle))
		}
		c.Expr = drawEntry(rt, "expr", false)
		out := checkC04(c)

		nValid, nInvalid, nCompound := 0, 0, 0
		var parts []string
		for _, e := range c.List {
			v, _ := Valid1(e.S.S())
			if v {
				nValid++
				if e.OpKnown && e.HasOp {
					nCompound++
				}
			} else {
				nInvalid++
			}
			parts = append(parts, e.S.S())
		}
		ev, _ := Valid1(c.Expr.S.S())
		classes := []string{}
		if nValid > 0 && nInvalid > 0 {
			classes = append(classes, "list-mixed")
		}
		if nCompound > 0 {
			classes = append(classes, "list-has-compound")
		}
		n = len(c.List)
		if n > 0 && nInvalid == 0 && nCompound == 0 {
			classes = append(classes, "list-all-valid-single")
		}
		if n == 0 {
			classes = append(classes, "list-empty")
		}
		if ev {
			classes = append(classes, "expr-valid")
		} else {
			classes = append(classes, "expr-invalid")
		}
		if ev && n > 0 && nInvalid == 0 && nCompound == 0 {
			classes = append(classes, "satisfies-no-error-expected")
		}
		nontrivial := (nValid > 0 && nInvalid > 0) || nCompound > 0 || !ev
		rec.Case(nontrivial, c.Expr.S.S()+" | "+strings.Join(parts, ","), map[string]any{"expr": c.Expr.S.Text, "list": parts}, classes...)
		if !out.OK {
			rec.Fail(rt, "c04-agreement", out.Key, out.Msg, c)
		}
	})
}
