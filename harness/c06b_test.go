package harness

import (
	"fmt"
	"strings"
	"testing"

	"pgregory.net/rapid"
)

// WideExtractCase: a flat expression over many distinct terms, some of them siblings of each
// other (the same id with / without an exception, with / without '+').
type WideExtractCase struct {
	Terms []string `json:"terms"`
	Ops   []string `json:"ops"` // len(Terms)-1 operators
}

func (c WideExtractCase) expr() string {
	var b strings.Builder
	for i, t := range c.Terms {
		if i > 0 {
			b.WriteString(" " + c.Ops[i-1] + " ")
		}
		b.WriteString(t)
	}
	return b.String()
}

func init() { registerReplay("c06-wide", checkC06Wide) }

// checkC06Wide: the extraction of a wide expression is the union of the extractions of its terms,
// and it satisfies the expression and every single term of it - also when the list is long enough
// for index / bucket fast paths and holds several entries for one id.
func checkC06Wide(c WideExtractCase) Outcome {
	e := c.expr()
	key := "C06/wide/" + shortKey(e)
	er := Extract(e)
	if er.Panic != "" {
		return fail("C06/panic/"+shortKey(e), "ExtractLicenses(%q) panicked: %s", e, er.Panic)
	}
	if er.IsErr {
		return fail(key, "ExtractLicenses(%q) returned error %q for a valid expression", e, er.Err)
	}
	want := map[string]bool{}
	for _, t := range c.Terms {
		lr := Extract(t)
		if lr.Panic != "" || lr.IsErr || len(lr.Licenses) != 1 {
			return fail("C06/term/"+t, "ExtractLicenses(%q) = %q, err=%q %s: a single term must extract to exactly one string", t, lr.Licenses, lr.Err, lr.Panic)
		}
		want[lr.Licenses[0]] = true
	}
	got := setOf(er.Licenses)
	if len(got) != len(er.Licenses) {
		return fail(key, "ExtractLicenses(%q) = %q contains duplicates", e, er.Licenses)
	}
	for w := range want {
		if !got[w] {
			return fail(key, "ExtractLicenses(%q) misses %q, the extraction of one of its %d terms; got %q", e, w, len(c.Terms), er.Licenses)
		}
	}
	for g := range got {
		if !want[g] {
			return fail(key, "ExtractLicenses(%q) invents %q, the extraction of none of its terms", e, g)
		}
	}
	if sr := Satisfies(e, er.Licenses); sr.Panic != "" || sr.IsErr || !sr.OK {
		return fail(key, "Satisfies(%q, ExtractLicenses(...) = %q) = %s, expected (true, nil)", e, er.Licenses, sr)
	}
	step := 1 + len(c.Terms)/24 // every term of a short expression, an even sample of a long one
	for i := 0; i < len(c.Terms); i += step {
		t := c.Terms[i]
		if sr := Satisfies(t, er.Licenses); sr.Panic != "" || sr.IsErr || !sr.OK {
			return fail(key, "term %q of %q is not satisfied by the extracted list %q: %s", t, e, er.Licenses, sr)
		}
	}
	return pass()
}

func TestC06_Wide(t *testing.T) {
	rec := NewRecorder("C06", "wide", "flat AND/OR expressions over 2-130 distinct terms (sizes around 8, 16, 32, 64, 128 over-represented): listed ids (family members over-represented), a third of them followed by siblings of themselves (same id with one or two different exceptions, with '+'), and references with boundary-shifted / re-cased siblings; oracle: set(Extract(e)) == union of Extract(term), no duplicates, Satisfies(e, Extract(e)) == (true,nil) and Satisfies(term, Extract(e)) == (true,nil) for every term (an even sample of 24 in long expressions); non-trivial = >= 16 terms with a sibling group; distinct by expression")
	defer rec.Finish(t)
	tb := Tbl()
	rec.Rapid(t, func(rt *rapid.T) {
		n := rapid.SampledFrom([]int{2, 5, 7, 8, 9, 15, 16, 17, 24, 25, 31, 32, 33, 48, 63, 64, 65, 100, 127, 128, 130}).Draw(rt, "n")
		var c WideExtractCase
		seen := map[string]bool{}
		add := func(s string) {
			k := strings.ToLower(s)
			if !seen[k] && len(c.Terms) < n {
				seen[k] = true
				c.Terms = append(c.Terms, s)
			}
		}
		sibs := 0
		for i := 0; len(c.Terms) < n && i < 4*n; i++ {
			label := fmt.Sprintf("t%d", i)
			if rapid.IntRange(0, 7).Draw(rt, label+"Ref") == 0 {
				ref := DrawRefTerm(rt, label)
				add(ref.Text)
				if rapid.Bool().Draw(rt, label+"RefSib") {
					add(tb.sibling(rt, ref, nil, label).Text)
					sibs++
				}
				continue
			}
			base := tb.DrawBase(rt, label)
			if !idShaped(base) || strings.HasSuffix(base, "+") {
				continue
			}
			add(base)
			if rapid.IntRange(0, 2).Draw(rt, label+"Sib") == 0 {
				sibs++
				e1 := rapid.SampledFrom(tb.Exceptions).Draw(rt, label+"E1")
				add(base + " WITH " + e1)
				if rapid.Bool().Draw(rt, label+"Two") {
					add(base + " WITH " + rapid.SampledFrom(tb.Exceptions).Draw(rt, label+"E2"))
				}
				if rapid.Bool().Draw(rt, label+"Plus") {
					add(base + "+")
					if rapid.Bool().Draw(rt, label+"PlusExc") {
						add(base + "+ WITH " + e1)
					}
				}
			}
		}
		if len(c.Terms) < 2 {
			add("MIT")
			add("ISC")
		}
		if rapid.Bool().Draw(rt, "shuffle") {
			c.Terms = rapid.Permutation(c.Terms).Draw(rt, "perm")
		}
		mode := rapid.IntRange(0, 2).Draw(rt, "ops")
		for i := 1; i < len(c.Terms); i++ {
			op := "AND"
			if mode == 1 || (mode == 2 && rapid.Bool().Draw(rt, fmt.Sprintf("op%d", i))) {
				op = "OR"
			}
			c.Ops = append(c.Ops, op)
		}
		out := checkC06Wide(c)
		cls := []string{fmt.Sprintf("ops-mode-%d", mode)}
		if sibs > 0 {
			cls = append(cls, "has-sibling-group")
		}
		if len(c.Terms) >= 16 {
			cls = append(cls, "ge-16-terms")
		}
		e := c.expr()
		rec.Case(len(c.Terms) >= 16 && sibs > 0, e, map[string]any{"terms": len(c.Terms), "sibling_groups": sibs, "head": firstN(e, 100)}, cls...)
		if !out.OK {
			rec.Fail(rt, "c06-wide", out.Key, out.Msg, c)
		}
	})
}
